import ErrModel.Transport
import ErrModel.Generated.DecoderFacts
/-
  C05 — Decoding is total: no panic, always an error.
  Stated for the repaired tree (/repo fixes 1604c49 barriers, 846f5b2 exthttp/extgrpc,
  c4d044c markers, 032c57f contexttags).  `decode` is the transliteration of
  DecodeError with `none` as the panic outcome (an unchecked type assertion, an
  unguarded index); every `Enc` is structurally complete by construction.
-/
namespace ErrModel

theorem buildLeaf_some (P : Proc) (path : List Nat) (msg : Str) (d : Det) (hid : List Enc)
    (hd : Option Err) (cs : List Err) (hh : hid ≠ [] → hd.isSome = true) :
    (buildLeaf P path msg d hid hd (some cs)).isSome = true := by
  cases hid with
  | nil =>
    unfold buildLeaf
    cases cs <;> (simp only []; repeat' split) <;> simp_all
  | cons a r =>
    obtain ⟨m, rfl⟩ := Option.isSome_iff_exists.mp (hh (by simp))
    unfold buildLeaf
    cases cs <;> (simp only []; repeat' split) <;> simp_all

theorem buildWrap_some (P : Proc) (path : List Nat) (msg : Str) (d : Det) (mt : Nat) (hid : List Enc)
    (hd : Option Err) (c : Err) (hh : hid ≠ [] → hd.isSome = true) :
    (buildWrap P path msg d mt hid hd c).isSome = true := by
  cases hid with
  | nil =>
    unfold buildWrap
    (simp only []; repeat' split) <;> simp_all
  | cons a r =>
    obtain ⟨m, rfl⟩ := Option.isSome_iff_exists.mp (hh (by simp))
    unfold buildWrap
    (simp only []; repeat' split) <;> simp_all

mutual
/-- DecodeError never panics, whatever the type names, messages, reportable strings,
    message type and payload; it always returns an error. -/
theorem C05_total (P : Proc) : (w : Enc) → (path : List Nat) → (decode P path w).isSome = true
  | .leaf msg d hid causes, path => by
    obtain ⟨cs, hcs⟩ := Option.isSome_iff_exists.mp (C05_total_list P causes path 2)
    simp only [decode, hcs]
    exact buildLeaf_some P path msg d hid _ cs (fun h => C05_total_hid P hid path h)
  | .wrap msg d mt hid cause, path => by
    obtain ⟨c, hc⟩ := Option.isSome_iff_exists.mp (C05_total P cause (0 :: path))
    simp only [decode, hc]
    exact buildWrap_some P path msg d mt hid _ c (fun h => C05_total_hid P hid path h)
theorem C05_total_hid (P : Proc) : (hid : List Enc) → (path : List Nat) → hid ≠ [] →
    (decodeHid P path hid).isSome = true
  | [], _, h => absurd rfl h
  | a :: _, path, _ => by simp only [decodeHid]; exact C05_total P a (1 :: path)
theorem C05_total_list (P : Proc) : (l : List Enc) → (path : List Nat) → (i : Nat) →
    (decodeList P path i l).isSome = true
  | [], _, _ => rfl
  | e :: r, path, i => by
    obtain ⟨x, hx⟩ := Option.isSome_iff_exists.mp (C05_total P e (i :: path))
    obtain ⟨xs, hxs⟩ := Option.isSome_iff_exists.mp (C05_total_list P r path (i + 1))
    simp [decodeList, hx, hxs]
end

/-- in particular every hop succeeds, for every process pair -/
theorem C05_hop_total (P Q : Proc) (vf : Err → Str) (tag : Nat) (e : Err) : (hop P Q vf tag e).isSome = true :=
  C05_total Q _ _

/-- regression of the repaired decoders: the wires on which the pinned tree panicked -/
def cexDet (key : Str) : Det := ⟨key, ⟨key, []⟩, [], .none⟩
theorem C05_barrier_regression :
    (decode Full [1] (.leaf (b!"m") (cexDet k_barrier) [] [])).isSome = true := by decide
theorem C05_http_regression :
    (decode Full [1] (.wrap [] (cexDet k_withHTTPCode) 0 [] (.leaf (b!"c") (cexDet k_errorString) [] []))).isSome = true := by decide


/-! ## The registered decoders, regenerated from the source on every run

`Generated/DecoderFacts.lean` holds one straight-line program per function registered with
`Register{Leaf,Wrapper,MultiCause}Decoder` in /repo's current source (payload assertions with
their comma-ok guard, length guards, constant indices).  `DecProg.safe` is a verified checker
(`DecProg.safe_sound`): an accepted program never panics, whatever the payload's type and
whatever the lengths of the detail and payload-field slices. -/

/-- every registered decoder passes the checker (re-decided against the current source) -/
theorem C05_decoder_facts : DecProg.decoders.all (fun d => DecProg.safe [] d.ops) = true := by decide

/-- … and so does every additional path of a decoder written as `if x, ok := payload.(*T); ok { … }` -/
theorem C05_decoder_paths : DecProg.decoderPaths.all (fun d => DecProg.safe [] d.ops) = true := by decide

/-- hence no registered decoder panics on any payload / detail fault -/
theorem C05_registered_decoders_never_panic (d : DecProg.Decoder) (hd : d ∈ DecProg.decoders) (env : DecProg.Env) :
    DecProg.run env d.ops ≠ .panic := by
  have h := List.all_eq_true.mp C05_decoder_facts d hd
  exact DecProg.safe_sound env d.ops [] (by intro p hp; cases hp) h

/-- the decoder families of the model (`classify`), one per registered decoder -/
def decoderClasses : List KeyClass :=
  [.errorString, .deadline, .errno, .leafError, .unimplemented, .barrier, .barrierPrev, .join, .grpcStatus, .gogoStatus,
   .pkgWithMessage, .pathError, .linkError, .syscallError, .withPrefix, .withNewMessage, .withHint, .withDetail, .withMark,
   .withSecondary, .withContext, .withHTTPCode, .withGrpcCode, .withDomain, .withIssueLink, .withTelemetry,
   .withAssertionFailure, .withSafeDetails]

/-- the model has a decoder family for every decoder the source registers (a decoder added to
    the library without a model counterpart breaks this obligation) -/
theorem C05_model_covers_registered_decoders : DecProg.decoders.length = decoderClasses.length := by decide

/-- the checker is not vacuous: it rejects the two defect shapes that were repaired (an unchecked
    assertion; an index beyond the guarded length) and accepts a nested length test -/
theorem C05_checker_rejects_unchecked : DecProg.safe [] [.assert false] = false := by decide
theorem C05_checker_rejects_short_guard : DecProg.safe [] [.assert true, .require 0 2, .index 0 2 0] = false := by decide
theorem C05_checker_panics_witness :
    DecProg.run ⟨true, fun _ => 2⟩ [.assert true, .require 0 2, .index 0 2 0] = .panic := by decide
theorem C05_checker_accepts_nested : DecProg.safe [] [.index 0 0 1, .index 0 1 2] = true := by decide

end ErrModel
