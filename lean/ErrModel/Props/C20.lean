import ErrModel.Grpc
import ErrModel.Props.C11
/-
  C20 — The gRPC interceptors deliver the handler's error to the caller.
-/
namespace ErrModel

theorem reportedCode_ne_zero (e : Err) : reportedCode e ≠ 0 := by
  unfold reportedCode
  split <;> simp_all

/-- The server interceptor never panics (repaired: it used to, for a handler error that
    carries codes.OK — which killed the server process). -/
theorem C20_server_total (vf : Err → Str) (e : Option Err) : (serverIntercept vf e).isSome = true := by
  cases e with
  | none => rfl
  | some e =>
    cases h : asStatus e with
    | some p => simp [serverIntercept, h]
    | none => simp [serverIntercept, h, reportedCode_ne_zero]

/-- An error that is not itself a gRPC status error arrives exactly as if it had been
    transferred directly with EncodeError / DecodeError: the very same decoded value, hence
    the same text, identity, annotations and rendering. -/
theorem C20_equals_direct (vf : Err → Str) (tag : Nat) (e : Err) (hs : asStatus e = none) :
    viaGrpc vf tag (some e) = (hop Full Full vf tag e).map some := by
  simp [viaGrpc, serverIntercept, hs, reportedCode_ne_zero, clientIntercept, hop]

/-- The status code visible to callers is the code attached with WrapWithGrpcCode,
    Unknown (2) when there is none (or when the attached code is OK: a non-nil error is
    never reported as success). -/
theorem C20_visible_code (vf : Err → Str) (e : Err) (hs : asStatus e = none) :
    visibleCode vf (some e) = some (if getGrpcCode e = 0 then 2 else getGrpcCode e) := by
  simp [visibleCode, serverIntercept, hs, reportedCode_ne_zero]
  rfl

theorem C20_code_default (e : Err) (h : (chain e).findSome? layerGrpc = none) : getGrpcCode e = 2 := by
  simp [getGrpcCode, h]

theorem C20_code_attached (id : Ident) (n : Nat) (e : Err) : getGrpcCode (.wrap id (.withGrpcCode n) e) = n := by
  have : layerGrpc (.wrap id (.withGrpcCode n) e) = some n := rfl
  simp [getGrpcCode, chain, List.findSome?, this]

/-- Errors that already are gRPC status errors pass through with their code and message. -/
theorem C20_status_passthrough (vf : Err → Str) (tag : Nat) (e : Err) (c : Nat) (m : Str)
    (hs : asStatus e = some (c, m)) :
    viaGrpc vf tag (some e) = some (some (.leaf [tag] (.grpcStatus c m 0))) ∧
    visibleCode vf (some e) = some c := by
  simp [viaGrpc, visibleCode, serverIntercept, hs, clientIntercept]

/-- nil passes through. -/
theorem C20_nil (vf : Err → Str) (tag : Nat) : viaGrpc vf tag none = some none ∧ visibleCode vf none = some 0 := by
  simp [viaGrpc, visibleCode, serverIntercept, clientIntercept]

/-- Combined with C01/C11: for stable errors the delivered error has the same labelled
    shape (text, types, marks, annotations at every layer). -/
theorem C20_delivered_shape (vf : Err → Str) (tag : Nat) (e : Err)
    (hs : asStatus e = none) (hst : stable e = true) :
    ∃ e', viaGrpc vf tag (some e) = some (some e') ∧ shape vf e' = shape vf e := by
  obtain ⟨e', h1, h2, _⟩ := hop_ok vf e [tag] hst
  exact ⟨e', by rw [C20_equals_direct vf tag e hs]; simp [hop, h1], h2⟩

end ErrModel
