import ErrModel.Props.C08
import ErrModel.Props.C13
import ErrModel.Proofs.Regular
import ErrModel.Generated.CtorFacts
/-
  C10 — Error() composes predictably; annotations are transparent; nil stays nil.

  Strings that the real constructors compute through `redact` from a format and
  non-error arguments are inputs of the model constructors (`rs`); the statement
  "Newf yields the fmt-formatted text" is therefore split into
  `text (New… rs) = stripMarkers rs` (here) and the redact contract
  `stripMarkers (redact.Sprintf f args) = fmt.Sprintf f args` (validated against
  the real package by the harness's contract stream; Lean model of it: Engine).
-/
namespace ErrModel

/-- The annotation-only wrappers of the property text. -/
def WrapKind.isAnnot : WrapKind → Bool
  | .withStack _ | .withHint _ | .withDetail _ | .withIssueLink .. | .withTelemetry _
  | .withDomain _ | .withContext .. | .withAssertionFailure | .withSafeDetails _ | .withMark ..
  | .withHTTPCode _ | .withGrpcCode _ | .pkgWithStack _ => true
  | _ => false

/-- Annotation wrappers leave Error() unchanged … -/
theorem C10_annot_text (id : Ident) (k : WrapKind) (e : Err) (h : k.isAnnot = true) :
    text (.wrap id k e) = text e := by
  cases k <;> simp_all [WrapKind.isAnnot, text, wrapText]

/-- … and the root cause … -/
theorem C10_annot_root (id : Ident) (k : WrapKind) (e : Err) : unwrapAll (.wrap id k e) = unwrapAll e := rfl

/-- … and every Is match of the wrapped error (every wrapper does). -/
theorem C10_annot_is (P : Proc) (id : Ident) (k : WrapKind) (e r : Err) (h : is P e r = some true) :
    is P (.wrap id k e) r = some true := C08_mono P id k e r h

/-- A secondary error is an annotation too. -/
theorem C10_secondary_text (id : Ident) (e s : Err) : text (.second id e s) = text e := rfl
theorem C10_secondary_root (id : Ident) (e s : Err) : unwrapAll (.second id e s) = unwrapAll e := rfl
theorem C10_secondary_is (P : Proc) (id : Ident) (e s r : Err) (h : is P e r = some true) :
    is P (.second id e s) r = some true := C08_mono_secondary P id e s r h

/-- Message wrappers: exactly `prefix: cause-text`, the cause text alone for an empty prefix. -/
theorem C10_withMessage (n : Nat) (rs : RStr) (e : Err) :
    (cWithMessage n rs (some e)).map text =
      some (if rs = [] then text e else stripMarkers rs ++ colonSp ++ text e) := by
  simp [cWithMessage, text, wrapText, pfx]

theorem C10_wrap (n : Nat) (hasMsg : Bool) (rs : RStr) (st : Stack) (e : Err) :
    (cWrap n hasMsg rs st (some e)).map text =
      some (if hasMsg && !(rs = []) then stripMarkers rs ++ colonSp ++ text e else text e) := by
  cases hasMsg <;> by_cases h : rs = [] <;> simp [cWrap, text, wrapText, pfx, h]

/-- New / Newf / Errorf: the stripped redactable message. -/
theorem C10_new (n : Nat) (rs : RStr) (st : Stack) : (cNew n rs st).map text = some (stripMarkers rs) := by
  simp [cNew, text, wrapText, leafText]

/-- Newf with `%w`: the formatted text replaces the cause's. -/
theorem C10_newf_w (n : Nat) (rs : RStr) (st : Stack) (w : Err) (errArgs : List Err) :
    (cNewfW n rs st w errArgs).map text = some (stripMarkers rs) := by
  have : ∀ (l : List Err) (j : Nat) (x : Err), text (addSecondaries n j x l) = text x := by
    intro l
    induction l with
    | nil => intro j x; rfl
    | cons a r ih => intro j x; simp [addSecondaries, ih, text]
  simp [cNewfW, text, wrapText, this]

/-- Handled / HandledWithMessage: the barrier prints its own (stripped) message; for
    `Handled` that message is `redact.Sprint(err)`, i.e. the hidden error's text
    (redact contract + engine). -/
theorem C10_handled (n : Nat) (rs : RStr) (e : Err) : (cHandled n rs (some e)).map text = some (stripMarkers rs) := by
  simp [cHandled, text]

/-- safe strings without marker runes are stored verbatim: stripping gives them back -/
theorem stripToks_lex_of_markerFree : ∀ (s : Str), markerFree s = true → stripMarkers s = s := by
  intro s
  unfold markerFree stripMarkers
  -- induction on the lexer's recursion
  induction s using lex.induct with
  | case1 r ih => intro h; simp [lex] at h
  | case2 r ih => intro h; simp [lex] at h
  | case3 x r h1 h2 ih =>
    intro h
    rw [lex] at h ⊢
    · simp only [List.all_cons, Bool.and_eq_true] at h
      simp [stripToks, ih h.2]
    all_goals first | exact h1 | exact h2 | assumption
  | case4 => intro _; simp [lex, stripToks]

/-! ### nil stays nil -/

/-! ### the same laws for Error() as the real methods compute it

  `errText` follows the real `Error()` methods: `withPrefix`, `opaqueWrapper` and `joinError`
  print their cause through the formatting engine (`redact.Sprint(err).StripMarkers()`), the
  others concatenate.  For a cause over regular text (`RegE`, Proofs/Regular.lean) the two
  coincide, so the composition law holds of the engine-computed text as well. -/

/-- every wrapper: Error() is the compositional text over the cause's Error() -/
theorem C10_engine_composes (id : Ident) (k : WrapKind) (c : Err) (h : RegE c) :
    errText (.wrap id k c) = wrapText k (errText c) := errText_wrap_reg id k c h

/-- annotation wrappers leave the engine-computed Error() unchanged -/
theorem C10_engine_annot (id : Ident) (k : WrapKind) (c : Err) (h : RegE c) (hk : k.isAnnot = true) :
    errText (.wrap id k c) = errText c := by
  rw [errText_wrap_reg id k c h]
  cases k <;> simp_all [WrapKind.isAnnot, wrapText]

/-- a message wrapper yields exactly `prefix: cause-text`, the cause text alone for an empty prefix -/
theorem C10_engine_prefix (id : Ident) (p : RStr) (c : Err) (h : RegE c) :
    errText (.wrap id (.withPrefix p) c) = if p = [] then errText c else stripMarkers p ++ colonSp ++ errText c := by
  rw [errText_wrap_reg id _ c h]; simp [wrapText, pfx]

/-- a secondary error does not change Error() -/
theorem C10_engine_secondary (id : Ident) (c s : Err) : errText (.second id c s) = errText c := by
  simp [errText]

/-- a barrier prints its own message, whatever it hides -/
theorem C10_engine_barrier (id : Ident) (m : BarrierMsg) (h h' : Err) :
    errText (.barrier id m h) = errText (.barrier id m h') := by
  simp [errText]


theorem C10_nil_withMessage (n : Nat) (rs : RStr) : cWithMessage n rs none = none := rfl
theorem C10_nil_withStack (n : Nat) (st : Stack) : cWithStack n st none = none := rfl
theorem C10_nil_wrap (n : Nat) (b : Bool) (rs : RStr) (st : Stack) : cWrap n b rs st none = none := rfl
theorem C10_nil_annot (n : Nat) (k : WrapKind) : cAnnot n k none = none := rfl
theorem C10_nil_tags (n : Nat) (t : List (Str × Str)) (r : List Nat) : cTags n t r none = none := rfl
theorem C10_nil_handled (n : Nat) (rs : RStr) : cHandled n rs none = none := rfl
theorem C10_nil_mark (P : Proc) (n : Nat) (r : Option Err) : cMark P n none r = some none := rfl
theorem C10_nil_wrapfE (n : Nat) (rs : RStr) (st : Stack) (l : List Err) : cWrapfE n rs st l none = none := rfl
theorem C10_nil_handleAsAssertion (n : Nat) (rs : RStr) (st : Stack) : cHandleAsAssertionFailure n rs st none = none := rfl
theorem C10_nil_newAssertionWrapped (n : Nat) (a : RStr) (b : Bool) (rs : RStr) (st : Stack) :
    cNewAssertionErrorWithWrappedErrf n a b rs st none = none := rfl
theorem C10_combine_nil_left (n : Nat) (e : Option Err) : cCombine n none e = e := rfl
theorem C10_secondary_nil_right (n : Nat) (e : Option Err) : cWithSecondary n e none = e := by
  cases e <;> rfl
theorem C10_secondary_nil_left (n : Nat) (s : Option Err) : cWithSecondary n none s = none := by
  cases s <;> rfl
theorem C10_join_only_nils (n : Nat) (st : Stack) (es : List (Option Err)) (h : ∀ e ∈ es, e = none) :
    cJoin n st es = none := by
  simp [cJoin, C13_join_nil n es (dropNils_all_none es h), cWithStack]
theorem C10_leaf_nonnil_new (n : Nat) (rs : RStr) (st : Stack) : (cNew n rs st).isSome = true := rfl
theorem C10_leaf_nonnil_newfE (n : Nat) (rs : RStr) (st : Stack) (l : List Err) : (cNewfE n rs st l).isSome = true := rfl
theorem C10_leaf_nonnil_assertionFailedf (n : Nat) (rs : RStr) (st : Stack) : (cAssertionFailedf n rs st).isSome = true := rfl


/-! ## nil stays nil, over the source's own constructor table

`Generated/CtorFacts.lean` lists every function `(… err error …) error` of /repo's current
source with what its body does with a nil error: an explicit guard first, a pipeline of calls to
other functions of the table, or something the extractor cannot classify.  `CtorProg.nilSafe`
is a verified checker (`CtorProg.nilSafe_sound`). -/

/-- exported functions that take and return an error but are not wrapper constructors, or whose
    nil behaviour the property itself states differently -/
def nilExempt : List Str := [
  b!"errbase.UnwrapOnce", b!"errbase.UnwrapAll",            -- observers (type switch on the error)
  b!".UnwrapOnce", b!".UnwrapAll", b!".Cause", b!".Unwrap",   -- their aliases in the root package
  b!"secondary.CombineErrors", b!".CombineErrors"]           -- CombineErrors(nil, e) = e (stated by the property)

/-- every other exported function of the current source is accepted by the checker -/
theorem C10_ctor_table : CtorProg.checkAll CtorProg.ctors nilExempt = true := by decide

/-- hence it returns nil when its error argument is nil, whatever the unclassified functions do -/
theorem C10_nil_stays_nil_all (i : Nat) (c : CtorProg.Ctor) (hi : CtorProg.ctors[i]? = some c)
    (hexp : c.exported = true) (hne : nilExempt.contains c.name = false) (unk : Nat → Bool → Bool) :
    CtorProg.eval CtorProg.ctors unk CtorProg.fuel i true = some true := by
  have hall := C10_ctor_table
  simp only [CtorProg.checkAll, List.all_eq_true] at hall
  have hlt : i < CtorProg.ctors.length := by
    rcases Nat.lt_or_ge i CtorProg.ctors.length with h | h
    · exact h
    · rw [List.getElem?_eq_none h] at hi; cases hi
  have := hall i (List.mem_range.mpr hlt)
  simp only [hi, hexp, hne, Bool.not_true, Bool.false_or] at this
  exact CtorProg.nilSafe_sound CtorProg.ctors unk CtorProg.fuel i this

/-- the constructors the property names are all in the table (so that turning one of them into
    something the extractor no longer lists cannot make the table check vacuous) -/
def nilRequired : List Str := [
  b!".Wrap", b!".Wrapf", b!".WrapWithDepth", b!".WrapWithDepthf", b!".WithStack", b!".WithStackDepth",
  b!".WithMessage", b!".WithMessagef", b!".WithHint", b!".WithHintf", b!".WithDetail", b!".WithDetailf",
  b!".WithIssueLink", b!".WithTelemetry", b!".WithDomain", b!".WithContextTags", b!".WithAssertionFailure",
  b!".WithSafeDetails", b!".WithSecondaryError", b!".Mark", b!".Handled", b!".HandledWithMessage", b!".Opaque",
  b!".HandledInDomain", b!".HandledInDomainWithMessage", b!".HandleAsAssertionFailure",
  b!".HandleAsAssertionFailureDepth", b!".NewAssertionErrorWithWrappedErrf",
  b!"barriers.Handled", b!"barriers.HandledWithMessage", b!"barriers.HandledWithMessagef", b!"barriers.HandledWithSafeMessage",
  b!"exthttp.WrapWithHTTPCode", b!"extgrpc.WrapWithGrpcCode", b!"markers.Mark", b!"secondary.WithSecondaryError",
  b!"errutil.WrapWithDepth", b!"errutil.WrapWithDepthf", b!"withstack.WithStackDepth", b!"domains.WithDomain"]
theorem C10_ctor_table_complete : CtorProg.hasAll CtorProg.ctors nilRequired = true := by decide

/-- the checker is not vacuous: it rejects an unguarded constructor and a pipeline through one -/
theorem C10_checker_rejects :
    CtorProg.checkAll [⟨b!"a.F", true, 0, .forward [(1, 0)]⟩, ⟨b!"a.g", false, 0, .none⟩] [] = false ∧
    CtorProg.checkAll [⟨b!"a.F", true, 0, .forward [(1, 1)]⟩, ⟨b!"a.G", true, 0, .guard⟩] [] = false := by decide

end ErrModel
