import ErrModel.Props.C06
import ErrModel.Accessors
import ErrModel.Proofs.Outside
/-
  C03 — Unsafe strings never reach PII-free outputs.

  Proved here about the model: (1) the safe details of a layer, and so `GetSafeDetails`,
  `GetAllSafeDetails` and the reportable payload placed on the wire, do not depend on the
  fields that enter through a purely unsafe channel (a hint, a detail, the message of a
  non-library error, a path, a Mark reference's message, the message of an opaque leaf);
  (2) the reportable payload on the wire *is* the layer's safe details; (3) in a redactable
  rendering an entry that did not come from a SafeFormatError method is always passed
  through `redact.EscapeBytes`.
  (4) For everything that mixes safe and unsafe parts (a message built by `redact.Sprintf`, a
  context tag, an escaped foreign message) the PII-free form is `Redact()` of a redactable
  string.  `C03_redact_*`: Redact keeps the OUTSIDE view (the bytes not between markers) and
  turns every enclosure into `×`.  `C03_sprintf_outside` / `C03_sprintf_noninterference`:
  in the redact buffer model the outside view of `Sprintf` consists of the safe pieces, the
  outside views of the redactable pieces, the NEWLINES of the unsafe pieces and `?` marks —
  of nothing else an unsafe piece contains, for all byte contents; `C03_escapeBytes_outside`:
  the outside view of `EscapeBytes(s)` is the newlines of `s`.
  What remains tied but not proved: that the write machine and the layouts move these
  strings around without looking inside them (they only test bytes for newline-ness).
-/
namespace ErrModel

variable (P : Proc) (vf : Err → Str)

/-! ### safe details are independent of the purely unsafe fields -/

theorem C03_hint_not_in_details (id : Ident) (h h' : Str) (c : Err) :
    layerDetails P vf (.wrap id (.withHint h) c) = layerDetails P vf (.wrap id (.withHint h') c) := by
  simp [layerDetails]

theorem C03_detail_not_in_details (id : Ident) (h h' : Str) (c : Err) :
    layerDetails P vf (.wrap id (.withDetail h) c) = layerDetails P vf (.wrap id (.withDetail h') c) := by
  simp [layerDetails]

theorem C03_mark_message_not_in_details (id : Ident) (m m' : Str) (t : List TMark) (c : Err) :
    layerDetails P vf (.wrap id (.withMark m t) c) = layerDetails P vf (.wrap id (.withMark m' t) c) := by
  simp [layerDetails]

theorem C03_foreign_message_not_in_details (id : Ident) (m m' : Str) :
    layerDetails P vf (.leaf id (.errorString m)) = layerDetails P vf (.leaf id (.errorString m')) := by
  simp [layerDetails]

theorem C03_pkg_message_not_in_details (id : Ident) (m m' : Str) (st : Stack) :
    layerDetails P vf (.leaf id (.pkgFundamental m st)) = layerDetails P vf (.leaf id (.pkgFundamental m' st)) := by
  simp [layerDetails]

theorem C03_path_not_in_details (id : Ident) (op p p' : Str) (c : Err) :
    layerDetails P vf (.wrap id (.pathError op p) c) = layerDetails P vf (.wrap id (.pathError op p') c) := by
  simp [layerDetails]

theorem C03_link_paths_not_in_details (id : Ident) (op a b a' b' : Str) (c : Err) :
    layerDetails P vf (.wrap id (.linkError op a b) c) = layerDetails P vf (.wrap id (.linkError op a' b') c) := by
  simp [layerDetails]

theorem C03_unimplemented_message_not_in_details (id : Ident) (m m' url det : Str) :
    layerDetails P vf (.leaf id (.unimplemented m url det)) = layerDetails P vf (.leaf id (.unimplemented m' url det)) := by
  simp [layerDetails]

theorem C03_opaque_message_not_in_details (id : Ident) (m m' : Str) (d : Det) (hid : List Enc) :
    layerDetails P vf (.leaf id (.opaqueLeaf m d hid)) = layerDetails P vf (.leaf id (.opaqueLeaf m' d hid)) := by
  simp [layerDetails]

theorem C03_opaque_prefix_not_in_details (id : Ident) (p p' : Str) (d : Det) (mt : Nat) (hid : List Enc) (c : Err) :
    layerDetails P vf (.wrap id (.opaqueWrapper p d mt hid) c) = layerDetails P vf (.wrap id (.opaqueWrapper p' d mt hid) c) := by
  simp [layerDetails]

/-- the cause below a wrapper never contributes to the wrapper's own details -/
theorem C03_details_ignore_cause (id : Ident) (k : WrapKind) (c c' : Err) :
    layerDetails P vf (.wrap id k c) = layerDetails P vf (.wrap id k c') := by
  cases k <;> (first | rfl | simp [layerDetails] | (unfold layerDetails; rfl))

/-! ### the reportable payload on the wire is the layer's safe details -/

def Enc.rep : Enc → List Str
  | .leaf _ d _ _ => d.rep
  | .wrap _ d _ _ _ => d.rep

theorem C03_wire_reportable_leafError (id : Ident) (msg : RStr) :
    (encode P vf (.leaf id (.leafError msg))).rep = layerDetails P vf (.leaf id (.leafError msg)) := by
  unfold encode
  simp only []
  split <;> simp [Enc.rep, detOf]

theorem C03_wire_reportable_barrier (id : Ident) (m : BarrierMsg) (h : Err) :
    (encode P vf (.barrier id m h)).rep = layerDetails P vf (.barrier id m h) := by
  unfold encode
  simp only []
  split <;> simp [Enc.rep, detOf]

theorem C03_wire_reportable_foreign_leaf (id : Ident) (m : Str) :
    (encode P vf (.leaf id (.errorString m))).rep = [] := by
  unfold encode
  simp [Enc.rep, detOf, layerDetails]

theorem C03_wire_reportable_hint (id : Ident) (h : Str) (c : Err) :
    (encode P vf (.wrap id (.withHint h) c)).rep = [] := by
  unfold encode
  simp only []
  split <;> simp [Enc.rep, detOf, layerDetails]

/-- a path error sends only the operation name as reportable -/
theorem C03_wire_reportable_path (id : Ident) (op p : Str) (c : Err) (hk : P.knows (typeKey P (.wrap id (.pathError op p) c)) = true) :
    (encode P vf (.wrap id (.pathError op p) c)).rep = [op] := by
  unfold encode
  simp [Enc.rep, detOf, hk]

/-! ### rendering: what is not produced by a safe printer is escaped and enclosed -/

theorem C03_unsafe_entries_enclosed (en : Entry) (h : en.redactable = false) :
    escIfNeeded true en en.head = escapeBytesT (stripT en.head) ∧ escIfNeeded true en en.details = escapeBytesT (stripT en.details) :=
  ⟨C06_unsafe_entry_escaped en _ h, C06_unsafe_entry_escaped en _ h⟩

/-- a foreign leaf (not one of the safe sentinels) is collected as a non-redactable entry -/
theorem C03_foreign_leaf_entry (red detail : Bool) (id : Ident) (m : Str) (o wd : Bool) (d : Nat) (ls : Stack)
    (hs : isAnyB Full (.leaf id (.errorString m)) (specialSentinels.map some) = false) :
    ∀ en ∈ (ents red detail (.leaf id (.errorString m)) o wd d ls).1, en.redactable = false := by
  unfold ents
  simp only [leafScript, hs]
  intro en hen
  simp only [Bool.false_eq_true, if_false, List.mem_singleton] at hen
  subst hen
  rw [C06_redactable_flag]; rfl

/-! ### the whole rendering: what was written from an unsafe source is enclosed, and gone after Redact() -/

/-- In the model every byte written from an unsafe source carries the ghost label `Tok.u`: the
    arguments of `Printf`/`Print` that are not `Safe` (unsafe mode of the redact buffer), everything a
    non-SafeFormatter layer writes (`POp.plain`: hints, details, texts of foreign errors, prefixes
    extracted from foreign wrappers), and what is between markers in a stored redactable string.
    `LW` demands that a labelled byte occurs only between markers.  So: in the redactable rendering
    (`%v`, `%s`, `%+v`) of EVERY well-formed error — any depth, hidden and multi-cause parts
    included, any string contents — every unsafe byte is enclosed. -/
theorem C03_unsafe_enclosed (e : Err) (h : WFE e) (detail : Bool) : LW (renderT true detail e) :=
  renderT_LW detail e h

/-- a labelled byte at the outside is impossible in a well-formed string -/
theorem C03_label_means_inside (a b : Toks) (c : UInt8) (st : Bool) (h : lw false (a ++ Tok.u c :: b) = some st) :
    lw false a = some true := by
  rw [lw_append] at h
  cases ha : lw false a with
  | none => rw [ha] at h; simp at h
  | some s => rw [ha] at h; cases s <;> simp [lw] at h ⊢

/-- and after `Redact()` no unsafe byte is left at all: in `redact.Sprintf("%+v", err).Redact()`
    (what the Sentry report, the barrier details and `%v` of a redacted log line are made of) -/
theorem C03_redacted_rendering_has_no_unsafe_byte (e : Err) (h : WFE e) (detail : Bool) :
    ∀ x ∈ redactT (assembleT [.preT (renderT true detail e)]), ∀ c, x ≠ Tok.u c :=
  noU_redactT _ (C06_wellformed_sprintf e h detail)

/-- likewise for any message assembled by `redact.Sprintf` (the stored messages, prefixes and tags,
    whose `Redact()` forms are the safe details) -/
theorem C03_redacted_sprintf_has_no_unsafe_byte (segs : List SegT) (hs : ∀ g ∈ segs, g.ok) :
    ∀ x ∈ redactT (assembleT segs), ∀ c, x ≠ Tok.u c :=
  noU_redactT _ (LW_assembleT segs hs)

/-- and for an escaped foreign text -/
theorem C03_redacted_escapeBytes_has_no_unsafe_byte (s : Str) :
    ∀ x ∈ redactT (escapeBytesT s), ∀ c, x ≠ Tok.u c :=
  noU_redactT _ (LW_escapeBytesT s)

/-! ### Redact() and the outside view -/

/-- Redact keeps exactly the bytes that are outside the markers -/
theorem C03_redact_keeps_outside (t : Toks) (h : LW t) : outs false (redactT t) = outs false t :=
  outs_redactT t h

/-- and every enclosure of the redacted string is `×`: nothing of what was enclosed remains -/
theorem C03_redact_erases_inside (t : Toks) (h : LW t) :
    ∃ n, ins false (redactT t) = (List.replicate n timesB).flatten :=
  ins_redactT t h

/-- the outside view of what `redact.Sprintf` returns: safe pieces (marker runes escaped), outside
    views of redactable pieces, newlines of unsafe pieces, `?` marks -/
theorem C03_sprintf_outside (segs : List SegT) (hs : ∀ g ∈ segs, g.ok) :
    OutSet segs (outs false (assembleT segs)) :=
  outs_assembleT segs hs

/-- non-interference: two Sprintf calls that differ only in their unsafe arguments (with the same
    newlines) have their outside views in the same set -/
theorem C03_sprintf_noninterference (a b : List SegT) (ha : ∀ g ∈ a, g.ok) (hb : ∀ g ∈ b, g.ok)
    (hs : SameSafe a b) :
    OutSet b (outs false (assembleT a)) ∧ OutSet b (outs false (assembleT b)) :=
  outs_assembleT_noninterference a b ha hb hs

theorem SameSafe_refl : (l : List SegT) → SameSafe l l
  | [] => .nil
  | g :: r => .same g r r (SameSafe_refl r)

theorem SameSafe_at (pre post : List SegT) (s s' : Str) (h : nlsOf s = nlsOf s') :
    SameSafe (pre ++ .arg s :: post) (pre ++ .arg s' :: post) := by
  induction pre with
  | nil => exact .arg s s' post post h (SameSafe_refl post)
  | cons g r ih => exact .same g _ _ ih

/-- an unsafe argument can be replaced by any other with the same newlines without changing
    the set of possible outside views; in particular an argument without newlines contributes
    nothing at all -/
theorem C03_arg_invisible (pre post : List SegT) (s s' : Str) (h : nlsOf s = nlsOf s')
    (v : Str) (hv : OutSet (pre ++ .arg s :: post) v) : OutSet (pre ++ .arg s' :: post) v :=
  OutSet_sameSafe (SameSafe_at pre post s s' h) v hv

/-- the outside view of `redact.EscapeBytes(s)` is the newlines of `s`: a non-redactable entry
    contributes only line breaks to a redactable rendering -/
theorem C03_escapeBytes_outside (s : Str) : outs false (escapeBytesT s) = nlsOf s :=
  outs_escapeBytesT s

end ErrModel
