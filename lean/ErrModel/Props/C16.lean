import ErrModel.Generated.DepthFacts
/-
  C16 — Stacks and package domains are attributed to the right caller (partial).

  `depthFacts` is re-extracted from /repo's source on every run.  The theorems say:
  for EVERY depth d, every exported stack-capturing / domain-computing function of
  the root package, errutil, withstack and domains records (resp. names the package
  of) the (d+1)-th level above its own frame when it has a depth parameter, and its
  caller (level 1) otherwise.  Partial: the Go runtime's stack walker and inliner are
  not modelled; the harness observes them (every function × d ∈ 0..3 through
  non-inlinable helper chains spread over several packages).
-/
namespace ErrModel.Depth

/-- the forwarding arithmetic of every exported function checks out -/
theorem C16_table : checkAll depthFacts = true := by decide

/-- …hence, for every depth `d` (not just 0..3): -/
theorem C16_all (i : Nat) (f : Fn) (hi : depthFacts[i]? = some f) (hexp : f.exported = true) (d : Nat) :
    offset depthFacts i d = some (if f.hasDepth then (d : Int) + 1 else 1) :=
  offset_of_check depthFacts C16_table i f hi hexp d

/-- the functions the property lists are all present (so that removing the stack
    capture from one of them cannot make the table check vacuous) -/
def required : List Str := [
  b!"github.com/cockroachdb/errors.New", b!"github.com/cockroachdb/errors.NewWithDepth",
  b!"github.com/cockroachdb/errors.Newf", b!"github.com/cockroachdb/errors.NewWithDepthf",
  b!"github.com/cockroachdb/errors.Errorf",
  b!"github.com/cockroachdb/errors.Wrap", b!"github.com/cockroachdb/errors.WrapWithDepth",
  b!"github.com/cockroachdb/errors.Wrapf", b!"github.com/cockroachdb/errors.WrapWithDepthf",
  b!"github.com/cockroachdb/errors.WithStack", b!"github.com/cockroachdb/errors.WithStackDepth",
  b!"github.com/cockroachdb/errors.AssertionFailedf", b!"github.com/cockroachdb/errors.AssertionFailedWithDepthf",
  b!"github.com/cockroachdb/errors.HandleAsAssertionFailure", b!"github.com/cockroachdb/errors.HandleAsAssertionFailureDepth",
  b!"github.com/cockroachdb/errors.NewAssertionErrorWithWrappedErrf",
  b!"github.com/cockroachdb/errors.Join", b!"github.com/cockroachdb/errors.JoinWithDepth",
  b!"github.com/cockroachdb/errors.PackageDomain", b!"github.com/cockroachdb/errors.PackageDomainAtDepth",
  b!"github.com/cockroachdb/errors/errutil.New", b!"github.com/cockroachdb/errors/errutil.NewWithDepth",
  b!"github.com/cockroachdb/errors/errutil.Newf", b!"github.com/cockroachdb/errors/errutil.NewWithDepthf",
  b!"github.com/cockroachdb/errors/errutil.Wrap", b!"github.com/cockroachdb/errors/errutil.WrapWithDepth",
  b!"github.com/cockroachdb/errors/errutil.Wrapf", b!"github.com/cockroachdb/errors/errutil.WrapWithDepthf",
  b!"github.com/cockroachdb/errors/errutil.AssertionFailedf", b!"github.com/cockroachdb/errors/errutil.AssertionFailedWithDepthf",
  b!"github.com/cockroachdb/errors/errutil.HandleAsAssertionFailure", b!"github.com/cockroachdb/errors/errutil.HandleAsAssertionFailureDepth",
  b!"github.com/cockroachdb/errors/errutil.NewAssertionErrorWithWrappedErrf",
  b!"github.com/cockroachdb/errors/errutil.NewAssertionErrorWithWrappedErrDepthf",
  b!"github.com/cockroachdb/errors/errutil.JoinWithDepth",
  b!"github.com/cockroachdb/errors/withstack.WithStack", b!"github.com/cockroachdb/errors/withstack.WithStackDepth",
  b!"github.com/cockroachdb/errors/domains.PackageDomain", b!"github.com/cockroachdb/errors/domains.PackageDomainAtDepth",
  b!"github.com/cockroachdb/errors/domains.New", b!"github.com/cockroachdb/errors/domains.Handled"]

theorem C16_complete : hasAll depthFacts required = true := by decide

end ErrModel.Depth
