import ErrModel.Migrations
import ErrModel.Transport
/-
  C17 — Type renames do not break cross-version identity.

  Registry part: `register` (the repaired RegisterTypeMigration) keeps the table *flat*
  — every value is a name that is not itself a key — and after any registration a key
  resolves to the ROOT of its rename chain, so the outcome does not depend on the order
  in which chained renames are declared.
-/
namespace ErrModel

/-- every value of the table is a root (a name that is not itself renamed) -/
def Flat (reg : Registry) : Prop := ∀ k p, reg.lookup k = some p → reg.lookup p = none

theorem lookup_map_val (reg : Registry) (f : Str → Str) (k : Str) :
    (reg.map (fun e => (e.1, f e.2))).lookup k = (reg.lookup k).map f := by
  induction reg with
  | nil => rfl
  | cons a r ih =>
    simp only [List.map, List.lookup]
    cases h : (k == a.1) <;> simp [ih]

/-- what `register` does to every lookup -/
theorem register_lookup (reg : Registry) (prev new : Str) (reg' : Registry)
    (h : register reg prev new = some reg') (k : Str) :
    reg'.lookup k =
      if k = new then some (resolveKey reg prev)
      else (reg.lookup k).map (fun p => if p = new then resolveKey reg prev else p) := by
  unfold register at h
  split at h
  · cases h
  · cases h
    have hm : (reg.map (fun e => if e.2 = new then (e.1, resolveKey reg prev) else e)) =
        reg.map (fun e => (e.1, (fun p => if p = new then resolveKey reg prev else p) e.2)) := by
      apply List.map_congr_left
      intro e _
      by_cases he : e.2 = new <;> simp [he]
    by_cases hk : k = new
    · simp [hk, List.lookup]
    · have : (k == new) = false := by simpa using hk
      simp only [List.lookup, this, hk, if_false]
      rw [hm]
      exact lookup_map_val reg (fun p => if p = new then resolveKey reg prev else p) k

theorem register_new_fresh (reg : Registry) (prev new : Str) (reg' : Registry)
    (h : register reg prev new = some reg') : reg.lookup new = none := by
  unfold register at h
  split at h
  · cases h
  · rename_i hn
    cases hl : reg.lookup new with
    | none => rfl
    | some p => simp [hl] at hn

/-- Registering the same target twice is rejected. -/
theorem C17_dup (reg : Registry) (prev prev' new : Str) (reg' : Registry)
    (h : register reg prev new = some reg') : register reg' prev' new = none := by
  have := register_lookup reg prev new reg' h new
  simp at this
  unfold register
  simp [this]

/-- After a registration the new name resolves to the ROOT of the previous name (not to the
    previous name itself). -/
theorem C17_resolve_new (reg : Registry) (prev new : Str) (reg' : Registry)
    (h : register reg prev new = some reg') :
    resolveKey reg' new = resolveKey reg prev := by
  simp [resolveKey, register_lookup reg prev new reg' h]

/-- …every name that resolved to the new name now resolves to that root, and all other
    resolutions are unchanged. -/
theorem C17_resolve_others (reg : Registry) (prev new : Str) (reg' : Registry)
    (h : register reg prev new = some reg') (k : Str) (hk : k ≠ new) :
    resolveKey reg' k = if reg.lookup k = some new then resolveKey reg prev else resolveKey reg k := by
  have hl' := register_lookup reg prev new reg' h k
  simp only [hk, if_false] at hl'
  cases hl : reg.lookup k with
  | none => simp [resolveKey, hl', hl]
  | some p =>
    by_cases hp : p = new
    · simp [resolveKey, hl', hl, hp]
    · simp [resolveKey, hl', hl, hp]

theorem resolveKey_root (reg : Registry) (hf : Flat reg) (k : Str) : reg.lookup (resolveKey reg k) = none := by
  unfold resolveKey
  cases hl : reg.lookup k with
  | none => simpa using hl
  | some p => exact hf k p hl

/-- Flatness is an invariant of registration (for a rename that is not circular). -/
theorem C17_flat (reg : Registry) (prev new : Str) (reg' : Registry) (hf : Flat reg)
    (hacyc : resolveKey reg prev ≠ new)
    (h : register reg prev new = some reg') : Flat reg' := by
  have hroot := resolveKey_root reg hf prev
  have hrootl : reg'.lookup (resolveKey reg prev) = none := by
    rw [register_lookup reg prev new reg' h]
    simp [hacyc, hroot]
  intro k p hkp
  rw [register_lookup reg prev new reg' h] at hkp
  by_cases hk : k = new
  · simp [hk] at hkp
    rw [← hkp]; exact hrootl
  · simp only [hk, if_false] at hkp
    cases hl : reg.lookup k with
    | none => simp [hl] at hkp
    | some q =>
      simp only [hl, Option.map] at hkp
      by_cases hq : q = new
      · simp [hq] at hkp
        rw [← hkp]; exact hrootl
      · simp only [hq, if_false, Option.some.injEq] at hkp
        subst hkp
        have hq2 : reg.lookup q = none := hf k q hl
        rw [register_lookup reg prev new reg' h]
        simp [hq, hq2]

/-- In a flat table resolution is idempotent: resolved names are original names. -/
theorem C17_resolve_idem (reg : Registry) (hf : Flat reg) (k : Str) :
    resolveKey reg (resolveKey reg k) = resolveKey reg k := by
  have := resolveKey_root reg hf k
  generalize resolveKey reg k = x at this ⊢
  simp [resolveKey, this]

/-- The empty table is flat. -/
theorem C17_flat_empty : Flat [] := by intro k p h; simp [List.lookup] at h

/-! ### order independence -/

/-- substitution of one name by another -/
def subst1 (n root x : Str) : Str := if x = n then root else x

/-- closed form: registration post-composes every resolution with one substitution -/
theorem resolve_register (reg : Registry) (prev new : Str) (reg' : Registry)
    (h : register reg prev new = some reg') (k : Str) :
    resolveKey reg' k = subst1 new (resolveKey reg prev) (resolveKey reg k) := by
  have hfresh := register_new_fresh reg prev new reg' h
  by_cases hk : k = new
  · subst hk
    rw [C17_resolve_new reg prev k reg' h]
    simp [subst1, resolveKey, hfresh]
  · rw [C17_resolve_others reg prev new reg' h k hk]
    cases hl : reg.lookup k with
    | none => simp [subst1, resolveKey, hl, hk]
    | some q => by_cases hq : q = new <;> simp [subst1, resolveKey, hl, hq]

/-- Two rename declarations commute: whichever is registered first, every name resolves
    to the same original name afterwards (the declarations must not rename each other's
    roots into a cycle). -/
theorem C17_commute (reg : Registry) (p1 n1 p2 n2 : Str)
    (r1 r12 r2 r21 : Registry)
    (h1 : register reg p1 n1 = some r1) (h12 : register r1 p2 n2 = some r12)
    (h2 : register reg p2 n2 = some r2) (h21 : register r2 p1 n1 = some r21)
    (hne : n1 ≠ n2)
    (hcyc : ¬ (resolveKey reg p1 = n2 ∧ resolveKey reg p2 = n1)) :
    ∀ k, resolveKey r12 k = resolveKey r21 k := by
  intro k
  rw [resolve_register r1 p2 n2 r12 h12 k, resolve_register reg p1 n1 r1 h1 k,
      resolve_register reg p1 n1 r1 h1 p2,
      resolve_register r2 p1 n1 r21 h21 k, resolve_register reg p2 n2 r2 h2 k,
      resolve_register reg p2 n2 r2 h2 p1]
  generalize resolveKey reg k = x
  generalize hρ1 : resolveKey reg p1 = ρ1 at hcyc
  generalize hρ2 : resolveKey reg p2 = ρ2 at hcyc
  unfold subst1
  have hne' : n2 ≠ n1 := fun h => hne h.symm
  by_cases hx1 : x = n1 <;> by_cases hx2 : x = n2 <;> by_cases hr1 : ρ1 = n2 <;> by_cases hr2 : ρ2 = n1 <;>
    simp_all

/-- All registration orders of a three-link chain k0 ← k1 ← k2 ← k3 resolve every name to k0
    (exhaustive over the 6 orders; keys are arbitrary concrete distinct names). -/
def chainDecls : List (Str × Str) := [(b!"k0", b!"k1"), (b!"k1", b!"k2"), (b!"k2", b!"k3")]

def allRoot (decls : List (Str × Str)) : Bool :=
  match registerAll register [] decls with
  | none => false
  | some reg => [b!"k1", b!"k2", b!"k3"].all (fun k => resolveKey reg k == b!"k0")

theorem C17_order_chain3 :
    ([ [0,1,2], [0,2,1], [1,0,2], [1,2,0], [2,0,1], [2,1,0] ] : List (List Nat)).all
      (fun perm => allRoot (perm.filterMap (fun i => chainDecls[i]?))) = true := by decide

/-- the pinned algorithm did depend on the order: declared oldest-first, the newest name
    resolved to its immediate predecessor only (regression witness of the repaired defect) -/
theorem C17_pinned_order_counterexample :
    (registerAll registerPinned [] chainDecls).map (fun r => resolveKey r (b!"k3")) = some (b!"k2") := by decide

/-! ### the wire name of a renamed type -/

/-- A renamed type is encoded under its original name: the family of a type is its
    resolution in the process's registry. -/
theorem C17_wire_name (P : Proc) (e : Err) (h : e.opaqueDet = none) :
    (typeMark P e).fam = resolveKey P.reg e.ty.full := by
  simp [typeMark, h, Proc.family_eq_resolveKey]

/-- Processes that renamed the same original type differently still put the same family
    name on the wire (scenario "simultaneous migration"). -/
theorem C17_same_wire_name (P Q : Proc) (e f : Err) (he : e.opaqueDet = none) (hf : f.opaqueDet = none)
    (h : resolveKey P.reg e.ty.full = resolveKey Q.reg f.ty.full) :
    (typeMark P e).fam = (typeMark Q f).fam := by
  rw [C17_wire_name P e he, C17_wire_name Q f hf, h]

end ErrModel
