import ErrModel.Generated.UnwrapFacts
import ErrModel.Compat
import ErrModel.Proofs.Is
import ErrModel.Ctor
/-
  C14 — Drop-in compatibility with the standard library and pkg/errors.
-/
namespace ErrModel

mutual
theorem stdReach_sub : (e : Err) → ∀ n ∈ stdReach e, n ∈ reach e
  | .leaf id k => by simp [stdReach, reach]
  | .barrier id m h => by simp [stdReach, reach]
  | .wrap id k c => by
    intro n hn
    simp only [stdReach, List.mem_cons] at hn
    simp only [reach, List.mem_cons]
    rcases hn with h | h
    · exact Or.inl h
    · split at h
      · exact Or.inr (stdReach_sub c n h)
      · simp at h
  | .second id c s => by
    intro n hn
    simp only [stdReach, List.mem_cons] at hn
    simp only [reach, List.mem_cons]
    rcases hn with h | h
    · exact Or.inl h
    · exact Or.inr (stdReach_sub c n h)
  | .multi id k cs => by
    intro n hn
    simp only [stdReach, List.mem_cons] at hn
    simp only [reach, List.mem_cons]
    rcases hn with h | h
    · exact Or.inl h
    · exact Or.inr (stdReachL_sub cs n h)
theorem stdReachL_sub : (cs : List Err) → ∀ n ∈ stdReachL cs, n ∈ reachL cs
  | [] => by simp [stdReachL]
  | e :: r => by
    intro n hn
    simp only [stdReachL, List.mem_append] at hn
    simp only [reachL, List.mem_append]
    rcases hn with h | h
    · exact Or.inl (stdReach_sub e n h)
    · exact Or.inr (stdReachL_sub r n h)
end

/-- The standard library's errors.Is(e, r) implies this library's Is(e, r), for ANY error
    (also through layers that expose their cause through Cause() only, which the standard
    library cannot traverse). -/
theorem C14_is (P : Proc) (e r : Err) (h : stdIs e r = true) : isB P e r = true := by
  rw [isB_char]
  unfold stdIs at h
  rw [List.any_eq_true] at h ⊢
  obtain ⟨n, hn, hm⟩ := h
  exact ⟨n, stdReach_sub e n hn, by simp [layerMatch, hm]⟩

mutual
theorem stdReach_eq : (e : Err) → stdVisible e = true → stdReach e = reach e
  | .leaf id k, _ => rfl
  | .barrier id m h, _ => rfl
  | .wrap id k c, h => by
    simp only [stdVisible, Bool.and_eq_true] at h
    simp [stdReach, reach, h.1, stdReach_eq c h.2]
  | .second id c s, h => by
    simp only [stdVisible] at h
    simp [stdReach, reach, stdReach_eq c h]
  | .multi id k cs, h => by
    simp only [stdVisible] at h
    simp [stdReach, reach, stdReachL_eq cs h]
theorem stdReachL_eq : (cs : List Err) → stdVisibleL cs = true → stdReachL cs = reachL cs
  | [], _ => rfl
  | e :: r, h => by
    simp only [stdVisibleL, Bool.and_eq_true] at h
    simp [stdReachL, reachL, stdReach_eq e h.1, stdReachL_eq r h.2]
end

/-- As finds the same first match (hence assigns the same value) as the standard
    errors.As, for every target type `T`, on errors whose layers expose Unwrap. -/
theorem C14_as (T : Err → Bool) (e : Err) (h : stdVisible e = true) : libAs T e = stdAs T e := by
  simp [libAs, stdAs, stdReach_eq e h]

/-- …and in general a match of the standard errors.As is also found by this library's As
    at or before it (the library sees at least the same layers, in the same order). -/
theorem C14_as_found (T : Err → Bool) (e : Err) (n : Err) (h : stdAs T e = some n) : (libAs T e).isSome = true := by
  have hn : n ∈ stdReach e ∧ T n = true := by
    unfold stdAs at h
    exact ⟨List.mem_of_find?_eq_some h, List.find?_some h⟩
  unfold libAs
  rw [List.find?_isSome]
  exact ⟨n, stdReach_sub e n hn.1, hn.2⟩

/-- Unwrap agrees with the standard Unwrap on layers that have an Unwrap method, and both
    are nil on multi-cause errors. -/
theorem C14_unwrap (e : Err) (h : hasUnwrap e = true) : unwrapOnce e = stdUnwrap e := by
  simp [stdUnwrap, h]

theorem C14_unwrap_multi (id : Ident) (k : MultiKind) (cs : List Err) :
    unwrapOnce (.multi id k cs) = none ∧ stdUnwrap (.multi id k cs) = none := ⟨rfl, rfl⟩

/-- On a layer that exposes its cause through Cause() only the standard Unwrap is nil while
    this library follows Cause() (its documented behaviour, needed for pkg/errors). -/
theorem C14_unwrap_cause_only (id : Ident) (u : UserTy) (msg : Str) (c : Err) (h : u.expose = 1) :
    stdUnwrap (.wrap id (.user u msg) c) = none ∧ unwrapOnce (.wrap id (.user u msg) c) = some c := by
  simp [stdUnwrap, hasUnwrap, unwrapOnce, h]

/-- Cause / UnwrapAll return the same root as pkg/errors.Cause on single-cause chains whose
    layers implement `causer`. -/
theorem C14_cause : (e : Err) → causeVisible e = true → some (unwrapAll e) = pkgCause e
  | .leaf id k, h => by
    cases k <;> simp_all [unwrapAll, pkgCause, causeVisible]
  | .barrier id m h, _ => rfl
  | .multi id k cs, _ => rfl
  | .second id c s, h => by
    simp only [causeVisible] at h
    simp [unwrapAll, pkgCause, C14_cause c h]
  | .wrap id k c, h => by
    simp only [causeVisible, Bool.and_eq_true] at h
    simp [unwrapAll, pkgCause, h.1, C14_cause c h.2]

/-- Chains built by this library's constructors are visible to the standard library:
    every library wrapper implements Unwrap (and Cause). -/
theorem C14_library_wrappers_visible (id : Ident) (k : WrapKind) (c : Err)
    (hk : ∀ u m, k ≠ .user u m) : hasUnwrap (.wrap id k c) = true := by
  cases k <;> simp_all [hasUnwrap]

theorem C14_library_wrappers_causer (id : Ident) (k : WrapKind) (c : Err)
    (hk : match k with
      | .pathError .. | .linkError .. | .syscallError _ | .fmtWrapError _ | .user .. => False
      | _ => True) : hasCause (.wrap id k c) = true := by
  cases k <;> simp_all [hasCause]


/-! ## The source's own Cause / Unwrap methods (regenerated on every run) -/

/-- every Cause / Unwrap method of the current source is a plain `return recv.field` -/
theorem C14_unwrap_methods_recognised : Unwrap.methods.all (fun m => m.field.head? != some 63) = true := by decide

/-- a type with both methods returns the same field from both: the library's `Cause()`-following
    traversal and the standard library's `Unwrap()`-following one walk the same chain -/
theorem C14_cause_unwrap_same_field :
    Unwrap.methods.all (fun m => Unwrap.methods.all (fun m' =>
      !(m.pkg == m'.pkg && m.type == m'.type) || m.field == m'.field)) = true := by decide

end ErrModel
