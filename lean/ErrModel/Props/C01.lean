import ErrModel.Proofs.RoundTrip
import ErrModel.Proofs.TextEq
import ErrModel.Proto
import ErrModel.ProtoEnc
import ErrModel.ProtoPay
import ErrModel.ProtoFull
import ErrModel.ProtoHop
import ErrModel.ProtoNest
import ErrModel.ProtoHopAll
import ErrModel.ProtoHid
/-
  C01 — Error text and cause-tree structure survive network transfer.

  `shape vf e` is the visible cause tree (single-cause chain and multi-cause
  branches) with the Error() text at every node.  `stable e` is the decidable
  well-formedness of the trees the property quantifies over (section "Stability"
  of ErrModel/Shape.lean): foreign types are not registered, opaque nodes carry
  families without a decoder, and a foreign wrapper's text is not exactly
  ": " ++ cause (a wrapper with an empty message of its own — outside the
  property's "regular text").  Every kind of the library, stdlib, pkg/errors and
  OS error types is covered by the case analysis in Proofs/RoundTrip.lean.
-/
namespace ErrModel

/-- One hop between knowing processes preserves shape vf and text at every node. -/
theorem C01_hop (vf : Err → Str) (tag : Nat) (e : Err) (h : stable e = true) :
    ∃ e', hop Full Full vf tag e = some e' ∧ shape vf e' = shape vf e ∧ stable e' = true :=
  hop_ok vf e [tag] h

/-- Any number of hops: decoding never fails, the visible tree and the text at
    every node are those of the original error. -/
theorem C01_hops (vf : Err → Str) (tag : Nat) (e : Err) (h : stable e = true) :
    ∀ k : Nat, ∃ e', hopsFull vf tag k e = some e' ∧ shape vf e' = shape vf e ∧ stable e' = true := by
  intro k
  induction k with
  | zero => exact ⟨e, rfl, rfl, h⟩
  | succ k ih =>
    obtain ⟨e1, h1, hs1, hst1⟩ := ih
    obtain ⟨e2, h2, hs2, hst2⟩ := C01_hop vf (tag + k) e1 hst1
    exact ⟨e2, by simp [hopsFull, h1, h2], hs2.trans hs1, hst2⟩

/-- In particular the Error() text of the whole error is preserved. -/
theorem C01_text (vf : Err → Str) (tag : Nat) (e : Err) (h : stable e = true) (k : Nat) :
    ∃ e', hopsFull vf tag k e = some e' ∧ text e' = text e := by
  obtain ⟨e', h1, hs, _⟩ := C01_hops vf tag e h k
  exact ⟨e', h1, text_eq_of_shape hs⟩

/-- No drift: what a knowing process decodes re-encodes to the very wire message it received. -/
theorem C01_reencode (vf : Err → Str) (tag : Nat) (e : Err) (h : stable e = true) :
    ∃ e', hop Full Full vf tag e = some e' ∧ encode Full vf e' = encode Full vf e ∧ stable e' = true := by
  obtain ⟨e', h1, _, h3, h4⟩ := hop_ok_enc vf e [tag] h
  exact ⟨e', h1, h4, h3⟩

/-- No drift over any number of hops: the wire message at every hop is the message of the first
    encoding (so in particular hop 2 sends what hop 1 sent). -/
theorem C01_no_drift (vf : Err → Str) (tag : Nat) (e : Err) (h : stable e = true) :
    ∀ k : Nat, ∃ e', hopsFull vf tag k e = some e' ∧ encode Full vf e' = encode Full vf e ∧ stable e' = true := by
  intro k
  induction k with
  | zero => exact ⟨e, rfl, rfl, h⟩
  | succ k ih =>
    obtain ⟨e1, h1, hen1, hst1⟩ := ih
    obtain ⟨e2, h2, hen2, hst2⟩ := C01_reencode vf (tag + k) e1 hst1
    exact ⟨e2, by simp [hopsFull, h1, h2], hen2.trans hen1, hst2⟩

/-- The crux for unregistered wrappers, for ALL byte strings. -/
theorem C01_unregistered_wrapper_text (m c : Str) (h : m ≠ colonSp ++ c) :
    opaqueText (extractPrefix m c).1 (extractPrefix m c).2 c = m :=
  extract_reassemble m c h

/-- …and the excluded shape vf really is mis-rendered by the pinned algorithm
    (a wrapper printing ": " ++ cause comes back printing just the cause). -/
theorem C01_excluded_shape_counterexample :
    opaqueText (extractPrefix (colonSp ++ b!"x") (b!"x")).1 (extractPrefix (colonSp ++ b!"x") (b!"x")).2 (b!"x")
      ≠ colonSp ++ b!"x" := by decide

/-- Non-vacuity: a five-layer tree mixing library, stdlib and foreign kinds,
    with a hidden error, meets the hypothesis. -/
example : stable
    (.wrap [1,0] (.withStack [⟨7, b!"main.f\n\tf.go:1"⟩])
      (.wrap [1,1] (.withPrefix (b!"outer"))
        (.second [2,0]
          (.wrap [3,0] (.user ⟨b!"x/y/*y.W", b!"*y.W", 0, [], 0⟩ (b!"ctx"))
            (.multi [4,0] .join [.leaf [5,0] (.errorString (b!"a")), .barrier [6,0] ⟨b!"m", none⟩ (.leaf [7,0] .deadline)]))
          (.leaf [8,0] (.pkgFundamental (b!"sec") [⟨9, b!"main.g\n\tg.go:2"⟩]))))) = true := by decide


/-! ## The Error() the formatting engine computes

`text` above is the compositional Error(); the real `Error()` methods of `withPrefix`, the opaque
wrapper and `Join` go through the formatting engine (`errText`).  The two agree wherever every
visible wrapper sits over a regular cause (library `Join` nodes excepted, see Proofs/TextEq.lean),
so the transfer theorems speak about the engine-computed Error() as well. -/

/-- partial: library `Join` among the visible layers is not covered by the theorem (tied by the
    correspondence streams only) -/
theorem C01_engine_text_partial (e : Err) (h : EngOK e) : errText e = text e := errText_eq_text e h

/-- the engine-computed Error() survives any number of hops -/
theorem C01_engine_text_hops_partial (vf : Err → Str) (tag : Nat) (e : Err) (h : stable e = true) (he : EngOK e) (k : Nat) :
    ∃ e', hopsFull vf tag k e = some e' ∧ (EngOK e' → errText e' = errText e) := by
  obtain ⟨e', h1, ht⟩ := C01_text vf tag e h k
  exact ⟨e', h1, fun he' => by rw [errText_eq_text e' he', ht, errText_eq_text e he]⟩

/- non-vacuity: `exE_EngOK` in Props/C09.lean (the C09 witness meets the hypothesis). -/


/-! ## The bytes on the wire (partial)

`Proto.lean` models the protobuf encoding that the generated code of /repo/errorspb writes and
reads for `ErrorTypeMark` and for the string fields of `EncodedErrorDetails` (original type name,
embedded mark, reportable strings): base-128 varints, length-delimited fields, proto3 omission of
empty strings.  The model's bytes are compared with `Marshal` of the real messages for every
layer of every generated case (stream `detbytes`).  Partial: the `Any` payload, the message /
cause / message-type fields of `EncodedErrorLeaf` and `EncodedWrapper` and the recursion through
`EncodedError` are not modelled at byte level (gogo's Marshal/Unmarshal of those stay in the
trusted base, exercised by real hops). -/

/-- a varint of a 64-bit value is read back, whatever follows it -/
theorem C01_wire_varint (n : Nat) (h : n < 2 ^ 64) (rest : List UInt8) :
    Proto.readVarint 10 (Proto.varint n ++ rest) = some (n, rest) :=
  Proto.readVarint_varint n 10 rest (Proto.varint_length_u64 n h)

/-- the type mark of a layer survives its own wire encoding, for all byte strings -/
theorem C01_wire_mark_partial (m : TMark) (h1 : m.fam.length < 2 ^ 64) (h2 : m.ext.length < 2 ^ 64) :
    Proto.desMark (Proto.serMark m) = some m :=
  Proto.desMark_serMark m h1 h2

/-- the type name, the mark and the safe details of a layer survive their wire encoding, for all
    byte strings (empty ones, which proto3 omits, included) -/
theorem C01_wire_details_partial (d : Det) (h1 : d.origType.length < 2 ^ 64) (h2 : d.mark.fam.length < 2 ^ 62)
    (h3 : d.mark.ext.length < 2 ^ 62) (h4 : ∀ s ∈ d.rep, s.length < 2 ^ 64) :
    Proto.desDet (Proto.serDet d) = some (d.origType, d.mark, d.rep) :=
  Proto.desDet_serDet d h1 h2 h3 h4

/-- a concrete layer: an empty extension and an empty reportable string among non-empty ones -/
theorem C01_wire_example :
    Proto.serDet ⟨b!"t", ⟨b!"f", []⟩, [b!"a", [], b!"bc"], .none⟩ =
      [0x0a, 1, 116, 0x12, 3, 0x0a, 1, 102, 0x1a, 1, 97, 0x1a, 0, 0x1a, 2, 98, 99] := by
  simp [Proto.serDet, Proto.detFields, Proto.serMark, Proto.markFields, Proto.serLD, Proto.lenField, Proto.varint, lit]


/-- the whole message, payloads cleared: the generated reader gives back the message the generated
    writer was given — any nesting depth, any number of multi-cause branches, any byte strings,
    any message type — provided every length prefix fits 64 bits (`SmallW`) -/
theorem C01_wire_message_partial (w : Proto.W) (h : Proto.SmallW w) :
    Proto.desW (Proto.height w) (Proto.serW w) = some w :=
  Proto.desW_serW w (Proto.height w) (Nat.le_refl _) h

/-- non-vacuity: a wrapper with a full message over a two-branch multi-cause leaf -/
def exW : Proto.W :=
  .wrap (b!"m") ⟨b!"t", ⟨b!"f", b!"x"⟩, [b!"r"], .none⟩ 1
    (.leaf [] ⟨[], ⟨b!"g", []⟩, [], .none⟩ [.leaf (b!"a") ⟨b!"u", ⟨b!"u", []⟩, [], .none⟩ [], .leaf (b!"b") ⟨b!"u", ⟨b!"u", []⟩, [], .none⟩ []])
theorem exW_small : Proto.SmallW exW := by
  simp [exW, Proto.SmallW, Proto.SmallWs, Proto.DetSmall, Proto.serW, Proto.serWs, Proto.serItems, Proto.Item.ser,
    Proto.leafItems, Proto.wrapItems, Proto.optLd, Proto.optVi, Proto.serDet, Proto.detFields, Proto.serMark,
    Proto.markFields, Proto.serLD, Proto.lenField, Proto.varint, lit]


/-- the `Any` that carries a payload: type URL and value come back, for all byte strings -/
theorem C01_wire_any (url val : List UInt8) (h1 : url.length < 2 ^ 64) (h2 : val.length < 2 ^ 64) :
    Proto.desAny (Proto.serAny url val) = some (url, val) :=
  Proto.desAny_serAny url val h1 h2

/-- every payload message of the library is read back as it was written (strings, repeated
    strings, the errno payload with its five flags, marks with any number of types, tags with any
    number of pairs, HTTP and gRPC codes, the empty test payload) -/
theorem C01_wire_payload_partial (p : Pay) (name : Str) (fields : List Proto.Item)
    (hf : Proto.payFields p = some (name, fields)) (hs : Proto.PaySmall p) :
    Proto.desPayNamed name (Proto.serItems fields) = some p :=
  Proto.desPay_serPay p name fields hf hs


/-- the details of a layer WITH its payload: type name, mark, safe details and the payload message
    come back (any modelled payload, any byte strings) -/
theorem C01_wire_details_with_payload (d : Det) (h : Proto.DetSmallP d) :
    Proto.detOfBytesP (some (Proto.serDetP d)) = some d :=
  Proto.detOfBytesP_serDetP d h

/-- the whole message WITH its payloads, when these are the library's flat payload messages: the
    generated reader gives back the message the generated writer was given, at any depth and with any
    number of multi-cause branches (stream `fullbytes`: the model's bytes equal gogo's on every such
    case).  Partial: a nested EncodedError payload is a message of its own (`C01_wire_message_partial`
    applies to it), a gRPC status payload is not modelled. -/
theorem C01_wire_full_partial (w : Proto.F) (h : Proto.SmallF w) :
    Proto.desF (Proto.heightF w) (Proto.serF w) = some w :=
  Proto.desF_serF w (Proto.heightF w) (Nat.le_refl _) h


/-- A hop through actual bytes — EncodeError, Marshal, Unmarshal, DecodeError — is the hop of the
    transport model (to which C01_hop … C01_no_drift apply), for every error whose layers carry no
    nested EncodedError payload and whose length prefixes fit 64 bits.  Partial: barrier and
    secondary-error layers (nested payload) and gRPC status leaves go through gogo's code unmodelled. -/
theorem C01_hop_through_bytes_partial (P Q : Proc) (vf : Err → Str) (tag : Nat) (e : Err)
    (hn : Proto.noNested (encode P vf e) = true) (hs : Proto.SmallF (Proto.full (encode P vf e))) :
    (Proto.throughBytes (encode P vf e)).bind (decode Q [tag]) = hop P Q vf tag e :=
  Proto.hop_through_bytes P Q vf tag e hn hs


/-- the COMPLETE message: flat payload messages and nested EncodedError payloads (the masked error of
    a barrier, a secondary error — at any nesting depth) — is read back as it was written (stream
    `allbytes`: the model's bytes equal gogo's on every case without a gRPC status payload) -/
theorem C01_wire_complete (w : Proto.G) (h : Proto.SmallG w) :
    Proto.desG (Proto.heightG w) (Proto.serG w) = some w :=
  Proto.desG_serG w (Proto.heightG w) (Nat.le_refl _) h

/-- hence a hop through actual bytes is the hop of the transport model for every error whose
    payloads are modelled — everything the library builds except gRPC status leaves (finding D13's
    kind); `oneHid`: a layer carries at most one nested message, as EncodeError produces -/
theorem C01_hop_through_bytes (P Q : Proc) (vf : Err → Str) (tag : Nat) (e : Err)
    (hn : Proto.oneHid (encode P vf e) = true) (hs : Proto.SmallG (Proto.fullG (encode P vf e))) :
    (Proto.throughBytesG (encode P vf e)).bind (decode Q [tag]) = hop P Q vf tag e :=
  Proto.hop_through_bytes_all P Q vf tag e hn hs


/-- `oneHid` holds of everything EncodeError produces from locally built layers (and from received
    opaque layers that satisfy it): the hypothesis of the previous theorem is about opaque stand-ins
    only (`hidOK`) -/
theorem C01_hop_through_bytes_built (P Q : Proc) (vf : Err → Str) (tag : Nat) (e : Err)
    (hk : Proto.hidOK e = true) (hs : Proto.SmallG (Proto.fullG (encode P vf e))) :
    (Proto.throughBytesG (encode P vf e)).bind (decode Q [tag]) = hop P Q vf tag e :=
  Proto.hop_through_bytes_all P Q vf tag e (Proto.oneHid_encode P vf e hk) hs

end ErrModel
