import ErrModel.Proofs.RoundTrip
import ErrModel.Proofs.TextEq
/-
  C01 — Error text and cause-tree structure survive network transfer.

  `shape vf e` is the visible cause tree (single-cause chain and multi-cause
  branches) with the Error() text at every node.  `stable e` is the decidable
  well-formedness of the trees the property quantifies over (section "Stability"
  of ErrModel/Shape.lean): foreign types are not registered, opaque nodes carry
  families without a decoder, and a foreign wrapper's text is not exactly
  ": " ++ cause (a wrapper with an empty message of its own — outside the
  property's "regular text").  Every kind of the library, stdlib, pkg/errors and
  OS error types is covered by the case analysis in Proofs/RoundTrip.lean.
-/
namespace ErrModel

/-- One hop between knowing processes preserves shape vf and text at every node. -/
theorem C01_hop (vf : Err → Str) (tag : Nat) (e : Err) (h : stable e = true) :
    ∃ e', hop Full Full vf tag e = some e' ∧ shape vf e' = shape vf e ∧ stable e' = true :=
  hop_ok vf e [tag] h

/-- Any number of hops: decoding never fails, the visible tree and the text at
    every node are those of the original error. -/
theorem C01_hops (vf : Err → Str) (tag : Nat) (e : Err) (h : stable e = true) :
    ∀ k : Nat, ∃ e', hopsFull vf tag k e = some e' ∧ shape vf e' = shape vf e ∧ stable e' = true := by
  intro k
  induction k with
  | zero => exact ⟨e, rfl, rfl, h⟩
  | succ k ih =>
    obtain ⟨e1, h1, hs1, hst1⟩ := ih
    obtain ⟨e2, h2, hs2, hst2⟩ := C01_hop vf (tag + k) e1 hst1
    exact ⟨e2, by simp [hopsFull, h1, h2], hs2.trans hs1, hst2⟩

/-- In particular the Error() text of the whole error is preserved. -/
theorem C01_text (vf : Err → Str) (tag : Nat) (e : Err) (h : stable e = true) (k : Nat) :
    ∃ e', hopsFull vf tag k e = some e' ∧ text e' = text e := by
  obtain ⟨e', h1, hs, _⟩ := C01_hops vf tag e h k
  exact ⟨e', h1, text_eq_of_shape hs⟩

/-- No drift: what a knowing process decodes re-encodes to the very wire message it received. -/
theorem C01_reencode (vf : Err → Str) (tag : Nat) (e : Err) (h : stable e = true) :
    ∃ e', hop Full Full vf tag e = some e' ∧ encode Full vf e' = encode Full vf e ∧ stable e' = true := by
  obtain ⟨e', h1, _, h3, h4⟩ := hop_ok_enc vf e [tag] h
  exact ⟨e', h1, h4, h3⟩

/-- No drift over any number of hops: the wire message at every hop is the message of the first
    encoding (so in particular hop 2 sends what hop 1 sent). -/
theorem C01_no_drift (vf : Err → Str) (tag : Nat) (e : Err) (h : stable e = true) :
    ∀ k : Nat, ∃ e', hopsFull vf tag k e = some e' ∧ encode Full vf e' = encode Full vf e ∧ stable e' = true := by
  intro k
  induction k with
  | zero => exact ⟨e, rfl, rfl, h⟩
  | succ k ih =>
    obtain ⟨e1, h1, hen1, hst1⟩ := ih
    obtain ⟨e2, h2, hen2, hst2⟩ := C01_reencode vf (tag + k) e1 hst1
    exact ⟨e2, by simp [hopsFull, h1, h2], hen2.trans hen1, hst2⟩

/-- The crux for unregistered wrappers, for ALL byte strings. -/
theorem C01_unregistered_wrapper_text (m c : Str) (h : m ≠ colonSp ++ c) :
    opaqueText (extractPrefix m c).1 (extractPrefix m c).2 c = m :=
  extract_reassemble m c h

/-- …and the excluded shape vf really is mis-rendered by the pinned algorithm
    (a wrapper printing ": " ++ cause comes back printing just the cause). -/
theorem C01_excluded_shape_counterexample :
    opaqueText (extractPrefix (colonSp ++ b!"x") (b!"x")).1 (extractPrefix (colonSp ++ b!"x") (b!"x")).2 (b!"x")
      ≠ colonSp ++ b!"x" := by decide

/-- Non-vacuity: a five-layer tree mixing library, stdlib and foreign kinds,
    with a hidden error, meets the hypothesis. -/
example : stable
    (.wrap [1,0] (.withStack [⟨7, b!"main.f\n\tf.go:1"⟩])
      (.wrap [1,1] (.withPrefix (b!"outer"))
        (.second [2,0]
          (.wrap [3,0] (.user ⟨b!"x/y/*y.W", b!"*y.W", 0, [], 0⟩ (b!"ctx"))
            (.multi [4,0] .join [.leaf [5,0] (.errorString (b!"a")), .barrier [6,0] ⟨b!"m", none⟩ (.leaf [7,0] .deadline)]))
          (.leaf [8,0] (.pkgFundamental (b!"sec") [⟨9, b!"main.g\n\tg.go:2"⟩]))))) = true := by decide


/-! ## The Error() the formatting engine computes

`text` above is the compositional Error(); the real `Error()` methods of `withPrefix`, the opaque
wrapper and `Join` go through the formatting engine (`errText`).  The two agree wherever every
visible wrapper sits over a regular cause (library `Join` nodes excepted, see Proofs/TextEq.lean),
so the transfer theorems speak about the engine-computed Error() as well. -/

/-- partial: library `Join` among the visible layers is not covered by the theorem (tied by the
    correspondence streams only) -/
theorem C01_engine_text_partial (e : Err) (h : EngOK e) : errText e = text e := errText_eq_text e h

/-- the engine-computed Error() survives any number of hops -/
theorem C01_engine_text_hops_partial (vf : Err → Str) (tag : Nat) (e : Err) (h : stable e = true) (he : EngOK e) (k : Nat) :
    ∃ e', hopsFull vf tag k e = some e' ∧ (EngOK e' → errText e' = errText e) := by
  obtain ⟨e', h1, ht⟩ := C01_text vf tag e h k
  exact ⟨e', h1, fun he' => by rw [errText_eq_text e' he', ht, errText_eq_text e he]⟩

/- non-vacuity: `exE_EngOK` in Props/C09.lean (the C09 witness meets the hypothesis). -/

end ErrModel
