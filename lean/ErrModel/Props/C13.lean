import ErrModel.Proofs.Is
import ErrModel.Props.C01
import ErrModel.Ctor
/-
  C13 — Multi-cause errors behave as a tree.
-/
namespace ErrModel

theorem reachL_any (P : Proc) (r : Err) : (cs : List Err) →
    (reachL cs).any (layerMatch P r) = cs.any (fun c => isB P c r)
  | [] => by simp [reachL]
  | c :: rest => by
    simp [reachL, List.any_append, reachL_any P r rest, isB_char]

/-- Is succeeds on a multi-cause error exactly when it succeeds on the error itself
    (identity, its own Is method, its own mark) or on at least one branch. -/
theorem C13_is (P : Proc) (id : Ident) (k : MultiKind) (cs : List Err) (r : Err) :
    isB P (.multi id k cs) r =
      (layerMatch P r (.multi id k cs) || cs.any (fun c => isB P c r)) := by
  rw [isB_char]
  simp [reach, reachL_any]

/-- IsAny likewise (through C08_any). -/
theorem C13_isAny (P : Proc) (id : Ident) (k : MultiKind) (cs : List Err) (refs : List (Option Err)) :
    isAnyB P (.multi id k cs) refs =
      (dropNone refs).any (fun r => layerMatch P r (.multi id k cs) || cs.any (fun c => isB P c r)) := by
  have h : isAnyB P (.multi id k cs) refs = (dropNone refs).any (fun r => isB P (.multi id k cs) r) := by
    show (isAnyPhase1 P (dropNone refs) (.multi id k cs) ||
      isAnyPhase2 P ((dropNone refs).map (getMark P)) (chain (.multi id k cs))) = _
    rw [isAny_char]
    have : (fun n => layerMatchAny P (dropNone refs) n) = (fun n => (dropNone refs).any (fun r => layerMatch P r n)) := rfl
    show (reach (.multi id k cs)).any (fun n => layerMatchAny P (dropNone refs) n) = _
    rw [this, any_any_swap]
    congr 1
    funext r
    rw [isB_char]
  rw [h]
  congr 1
  funext r
  exact C13_is P id k cs r

/-- Unwrap / UnwrapOnce treat multi-cause errors as leaves; UnwrapAll stops there. -/
theorem C13_unwrapOnce (id : Ident) (k : MultiKind) (cs : List Err) : unwrapOnce (.multi id k cs) = none := rfl
theorem C13_unwrapAll (id : Ident) (k : MultiKind) (cs : List Err) : unwrapAll (.multi id k cs) = .multi id k cs := rfl

/-- Join drops nil arguments, returns nil when nothing remains … -/
theorem C13_join_nil (n : Nat) (es : List (Option Err)) (h : dropNils es = []) : cJoinRaw n es = none := by
  simp [cJoinRaw, h]

theorem C13_join_drops_nils (n : Nat) (es : List (Option Err)) (h : dropNils es ≠ []) :
    cJoinRaw n es = some (.multi (lid n 1) .join (dropNils es)) := by
  unfold cJoinRaw
  cases hd : dropNils es with
  | nil => exact absurd hd h
  | cons a r => rfl

theorem dropNils_all_none : (es : List (Option Err)) → (∀ e ∈ es, e = none) → dropNils es = []
  | [], _ => rfl
  | none :: r, h => by simp [dropNils, dropNils_all_none r (fun e he => h e (List.mem_cons_of_mem _ he))]
  | some e :: r, h => by have := h (some e) (List.mem_cons_self); cases this

/-- … and its Error() is the branch messages joined by newlines. -/
theorem C13_join_text (id : Ident) (cs : List Err) :
    text (.multi id .join cs) = joinWith nlS (cs.map text) := by
  simp [text, multiText, textList_eq_map]

/-- Branch count, order and per-branch shape/text survive any number of hops between
    knowing processes (`shape` lists the branches in order). -/
theorem C13_transfer (vf : Err → Str) (tag k : Nat) (id : Ident) (mk : MultiKind) (cs : List Err)
    (h : stable (.multi id mk cs) = true) :
    ∃ e', hopsFull vf tag k (.multi id mk cs) = some e' ∧
      ∃ l, shape vf e' = .node l (shapeL vf cs) ∧ l.text = text (.multi id mk cs) ∧ l.multi = true := by
  obtain ⟨e', h1, hs, _⟩ := C01_hops vf tag (.multi id mk cs) h k
  exact ⟨e', h1, label vf (.multi id mk cs), by rw [hs]; simp [shape], rfl, rfl⟩

end ErrModel
