import ErrModel.Report
/-
  C15 — The Sentry report is faithful to the error's structure.

  Model: `buildReport` (report.BuildSentryReport) over `visitAll` (visitAllMulti), the
  per-layer safe details and `reportableStack` (GetReportableStackTrace).
-/
namespace ErrModel

/-! ### the composition loop only appends; exceptions are appended one per layer with a stack -/

theorem compStep_msg (m : Str) (a : Acc) (l : Layer) : a.msg <+: (compStep m a l).msg :=
  List.prefix_append _ _

theorem foldl_compStep_msg (m : Str) (ls : List Layer) (a : Acc) : a.msg <+: (ls.foldl (compStep m) a).msg := by
  induction ls generalizing a with
  | nil => exact List.prefix_refl _
  | cons l r ih => exact List.IsPrefix.trans (compStep_msg m a l) (ih (compStep m a l))

/-- the message begins with the innermost source line (when there is a stack trace), the
    redacted verbose rendering and the composition header -/
theorem C15_message_head (P : Proc) (vf : Err → Str) (trim : List Str) (e : Err) :
    (srcPrefix P e ++ verboseRedacted e ++ compHeader) <+: (buildReport P vf trim e).message := by
  have h : (initAcc P e).msg <+: (compLoop P vf trim e).msg := foldl_compStep_msg _ _ _
  show _ <+: finalMsg (compLoop P vf trim e)
  unfold finalMsg
  split
  · exact List.IsPrefix.trans h (List.prefix_append _ _)
  · exact h

/-! ### one composition line per layer -/

/-- the composition lines, innermost layer first: each is computed from the loop state before it -/
def linesFrom (m : Str) : Acc → List Layer → List Str
  | _, [] => []
  | a, l :: r => lineOf a l :: linesFrom m (compStep m a l) r

theorem linesFrom_length (m : Str) (a : Acc) (ls : List Layer) : (linesFrom m a ls).length = ls.length := by
  induction ls generalizing a with
  | nil => rfl
  | cons l r ih => simp [linesFrom, ih]

theorem foldl_compStep_lines (m : Str) (ls : List Layer) (a : Acc) :
    (ls.foldl (compStep m) a).msg =
      a.msg ++ (if ls = [] then [] else a.sep ++ joinWith nlS (linesFrom m a ls)) := by
  induction ls generalizing a with
  | nil => simp
  | cons l r ih =>
    rw [List.foldl_cons, ih]
    cases r with
    | nil => simp [compStep, linesFrom, joinWith]
    | cons l2 r2 =>
      simp only [List.cons_ne_nil, if_false, linesFrom, joinWith]
      simp [compStep, List.append_assoc]

/-- after the header the message consists of exactly one line per layer (innermost first),
    joined by newlines, then possibly the closing remark -/
theorem C15_composition (P : Proc) (vf : Err → Str) (trim : List Str) (e : Err) :
    ∃ lines tail, lines.length = (visitAll e).length ∧
      (buildReport P vf trim e).message =
        srcPrefix P e ++ verboseRedacted e ++ compHeader ++ joinWith nlS lines ++ tail := by
  have hne : (reportLayers P vf trim e).reverse ≠ [] := by
    have : (visitAll e) ≠ [] := by cases e <;> simp [visitAll]
    simpa [reportLayers] using this
  refine ⟨linesFrom (getDomain e) (initAcc P e) (reportLayers P vf trim e).reverse,
    (if (compLoop P vf trim e).extraNum > 1 then nl :: b!"(check the extra data payloads)" else []), ?_, ?_⟩
  · rw [linesFrom_length]; simp [reportLayers]
  · show finalMsg (compLoop P vf trim e) = _
    have h := foldl_compStep_lines (getDomain e) (reportLayers P vf trim e).reverse (initAcc P e)
    simp only [hne, if_false] at h
    have hs : (initAcc P e).sep = [] := rfl
    have hm : (initAcc P e).msg = srcPrefix P e ++ verboseRedacted e ++ compHeader := rfl
    rw [hs, hm] at h
    unfold finalMsg compLoop
    rw [h]
    split <;> simp [List.append_assoc]

/-- the line of a layer names its type (path removed) -/
theorem lineOf_names_type (a : Acc) (l : Layer) : ∃ pre post, lineOf a l = pre ++ lastPathComponent l.origType ++ post := by
  unfold lineOf
  cases l.stack with
  | some frames => exact ⟨_, _, rfl⟩
  | none =>
    simp only []
    split
    · exact ⟨[], b!": " ++ (l.details.head?.map firstLine).getD [], by simp [List.append_assoc]⟩
    · exact ⟨[], [], by simp⟩

/-! ### exceptions -/

/-- the stacks of the layers that carry one, in the order the loop meets them -/
def stacksOf (ls : List Layer) : List (List RFrame) := ls.filterMap (·.stack)

theorem compStep_excs (m : Str) (a : Acc) (l : Layer) :
    (compStep m a l).excs.map (·.frames) = a.excs.map (·.frames) ++ (l.stack.toList.map some) ∧
    (∀ x ∈ (compStep m a l).excs, x ∉ a.excs → x.module = m) := by
  unfold compStep excOf
  cases hs : l.stack with
  | none => simp; intro x hx hn; exact absurd hx hn
  | some frames =>
    refine ⟨by simp, ?_⟩
    intro x hx hn
    simp only [List.mem_append, List.mem_singleton] at hx
    rcases hx with hx | hx
    · exact absurd hx hn
    · subst hx; rfl

theorem foldl_compStep_frames (m : Str) (ls : List Layer) (a : Acc) :
    (ls.foldl (compStep m) a).excs.map (·.frames) = a.excs.map (·.frames) ++ (stacksOf ls).map some := by
  induction ls generalizing a with
  | nil => simp [stacksOf]
  | cons l r ih =>
    rw [List.foldl_cons, ih, (compStep_excs m a l).1]
    cases h : l.stack <;> simp [stacksOf, h]

theorem foldl_compStep_module (m : Str) (ls : List Layer) (a : Acc) (ha : ∀ x ∈ a.excs, x.module = m) :
    ∀ x ∈ (ls.foldl (compStep m) a).excs, x.module = m := by
  induction ls generalizing a with
  | nil => simpa using ha
  | cons l r ih =>
    rw [List.foldl_cons]
    apply ih
    intro x hx
    by_cases hin : x ∈ a.excs
    · exact ha x hin
    · exact (compStep_excs m a l).2 x hx hin

/-- exactly one exception per layer that carries a stack trace, outermost first, each with
    the frames of that layer's stack; one synthetic exception without frames when no layer
    carries one -/
theorem C15_exceptions (P : Proc) (vf : Err → Str) (trim : List Str) (e : Err) :
    (buildReport P vf trim e).exceptions.map (·.frames) =
      (if stacksOf (reportLayers P vf trim e) = [] then [none]
       else (stacksOf (reportLayers P vf trim e)).map some) := by
  have hf := foldl_compStep_frames (getDomain e) (reportLayers P vf trim e).reverse (initAcc P e)
  have hrev : stacksOf (reportLayers P vf trim e).reverse = (stacksOf (reportLayers P vf trim e)).reverse := by
    simp [stacksOf, List.filterMap_reverse]
  rw [hrev] at hf
  show (finalExcs _ _ (compLoop P vf trim e)).map (·.frames) = _
  unfold finalExcs
  have h0 : (initAcc P e).excs = [] := rfl
  rw [h0, List.map_nil, List.nil_append] at hf
  change (compLoop P vf trim e).excs.map _ = _ at hf
  split
  · rename_i hex
    rw [hex] at hf
    have : stacksOf (reportLayers P vf trim e) = [] := by simpa using hf.symm
    simp [this]
  · rename_i first rest hex
    rw [hex] at hf
    have hne : stacksOf (reportLayers P vf trim e) ≠ [] := by
      intro h0; rw [h0] at hf; simp at hf
    simp only [hne, if_false]
    rw [List.map_reverse]
    simp only [List.map_cons] at hf ⊢
    rw [hf]
    simp [List.map_reverse]

/-- every exception carries the error's domain as module -/
theorem C15_module (P : Proc) (vf : Err → Str) (trim : List Str) (e : Err) :
    ∀ x ∈ (buildReport P vf trim e).exceptions, x.module = getDomain e := by
  have hm := foldl_compStep_module (getDomain e) (reportLayers P vf trim e).reverse (initAcc P e) (by simp [initAcc])
  show ∀ x ∈ finalExcs _ _ (compLoop P vf trim e), _
  unfold finalExcs
  change ∀ x ∈ (compLoop P vf trim e).excs, _ at hm
  split
  · simp
  · rename_i first rest hex
    rw [hex] at hm
    intro x hx
    simp only [List.mem_reverse, List.mem_cons] at hx
    rcases hx with hx | hx
    · subst hx; exact hm first (by simp)
    · exact hm x (by simp [hx])

/-! ### the `error types` extra -/

/-- one line per layer, innermost first, with its type name and mark -/
theorem C15_types (P : Proc) (vf : Err → Str) (trim : List Str) (e : Err) :
    (buildReport P vf trim e).types = ((reportLayers P vf trim e).reverse.flatMap typesLine) := rfl

theorem typesLine_shape (l : Layer) :
    typesLine l = l.origType ++ b!" (" ++ (if l.origType ≠ l.mark.fam then l.mark.fam else b!"*") ++ b!"::" ++ l.mark.ext ++ b!")" ++ [nl] := rfl

/-- the layers of the report are the visible layers, each exactly once: the layer itself,
    then its single cause, then its multiple causes -/
theorem C15_layers_length (P : Proc) (vf : Err → Str) (trim : List Str) (e : Err) :
    (reportLayers P vf trim e).length = (visitAll e).length := by simp [reportLayers]

/-- a nil error produces no report -/
def buildReportOpt (P : Proc) (vf : Err → Str) (trim : List Str) : Option Err → Option Report
  | none => none
  | some e => some (buildReport P vf trim e)

theorem C15_nil (P : Proc) (vf : Err → Str) (trim : List Str) : buildReportOpt P vf trim none = none := rfl

end ErrModel
