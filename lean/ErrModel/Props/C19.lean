import ErrModel.Accessors
/-
  C19 — Hints and details are aggregated in order, hints de-duplicated.

  `hintsInternal` / `detailsInternal` transliterate the recursive Go loops (recurse
  into the cause, then handle this layer, with the `seen` set); the theorems relate
  them to declarative specifications over the single-cause chain.
  `List.eraseDups` keeps the first occurrence of every element, in order.
-/
namespace ErrModel

/-- non-empty hint of a layer (standard hints of assertion failures, unimplemented
    errors and issue links included, through `layerHint`) -/
def hintNE (n : Err) : Option Str :=
  match layerHint n with
  | some s => if s = [] then none else some s
  | none => none

def detailNE (n : Err) : Option Str :=
  match layerDetail n with
  | some s => if s = [] then none else some s
  | none => none

/-- the hints / details of the layers, innermost first -/
def hintsInner (e : Err) : List Str := (chain e).reverse.filterMap hintNE
def detailsInner (e : Err) : List Str := (chain e).reverse.filterMap detailNE

/-- the `seen`-guarded append loop -/
def addAll (acc : List Str) (l : List Str) : List Str :=
  l.foldl (fun a s => if a.contains s then a else a ++ [s]) acc

theorem addHint_eq (acc : List Str) (n : Err) :
    addHint acc (layerHint n) = addAll acc ((hintNE n).toList) := by
  unfold addHint hintNE addAll
  cases h : layerHint n with
  | none => simp
  | some s => by_cases hs : s = [] <;> simp [hs]

theorem addAll_append (acc l1 l2 : List Str) : addAll acc (l1 ++ l2) = addAll (addAll acc l1) l2 := by
  simp [addAll, List.foldl_append]

theorem filterMap_toList (n : Err) (f : Err → Option Str) : [n].filterMap f = (f n).toList := by
  cases h : f n <;> simp [h]

theorem hintsInternal_eq : (e : Err) → (acc : List Str) → hintsInternal e acc = addAll acc (hintsInner e)
  | .leaf id k, acc => by
    simp only [hintsInternal, hintsInner, chain, List.reverse_cons, List.reverse_nil, List.nil_append]
    rw [addHint_eq, filterMap_toList]
  | .barrier id m hd, acc => by
    simp only [hintsInternal, hintsInner, chain, List.reverse_cons, List.reverse_nil, List.nil_append]
    rw [addHint_eq, filterMap_toList]
  | .multi id k cs, acc => by
    simp only [hintsInternal, hintsInner, chain, List.reverse_cons, List.reverse_nil, List.nil_append]
    rw [addHint_eq, filterMap_toList]
  | .wrap id k c, acc => by
    simp only [hintsInternal, hintsInner, chain, List.reverse_cons, List.filterMap_append]
    rw [addAll_append, ← hintsInner, ← hintsInternal_eq c acc, addHint_eq, filterMap_toList]
  | .second id c s, acc => by
    simp only [hintsInternal, hintsInner, chain, List.reverse_cons, List.filterMap_append]
    rw [addAll_append, ← hintsInner, ← hintsInternal_eq c acc, addHint_eq, filterMap_toList]

theorem contains_iff_mem (acc : List Str) (x : Str) : acc.contains x = true ↔ x ∈ acc := by
  simp

theorem addAll_eq_eraseDups : (l : List Str) → (acc : List Str) → acc.eraseDups = acc →
    addAll acc l = (acc ++ l).eraseDups
  | [], acc, h => by simp [addAll, h]
  | x :: l, acc, h => by
    have hstep : addAll acc (x :: l) = addAll (if acc.contains x then acc else acc ++ [x]) l := by
      simp [addAll]
    rw [hstep]
    by_cases hx : acc.contains x = true
    · simp only [hx, if_true]
      rw [addAll_eq_eraseDups l acc h, List.eraseDups_append, List.eraseDups_append]
      congr 2
      have hm : x ∈ acc := (contains_iff_mem acc x).mp hx
      simp [List.removeAll, hm]
    · have hx' : acc.contains x = false := by simpa using hx
      simp only [hx', Bool.false_eq_true, if_false]
      have hnodup : (acc ++ [x]).eraseDups = acc ++ [x] := by
        rw [List.eraseDups_append, h]
        have hm : x ∉ acc := fun hm => hx ((contains_iff_mem acc x).mpr hm)
        simp [List.removeAll, hm, List.eraseDups_cons]
      rw [addAll_eq_eraseDups l (acc ++ [x]) hnodup]
      simp

/-- GetAllHints: the non-empty hints of all layers from innermost to outermost, each
    distinct text once, first occurrence wins. -/
theorem C19_hints (e : Err) : getAllHints e = (hintsInner e).eraseDups := by
  unfold getAllHints
  rw [hintsInternal_eq, addAll_eq_eraseDups _ [] rfl]
  simp

theorem addDetail_eq (acc : List Str) (n : Err) :
    addDetail acc (layerDetail n) = acc ++ (detailNE n).toList := by
  unfold addDetail detailNE
  cases h : layerDetail n with
  | none => simp
  | some s => by_cases hs : s = [] <;> simp [hs]

theorem detailsInternal_eq : (e : Err) → (acc : List Str) → detailsInternal e acc = acc ++ detailsInner e
  | .leaf id k, acc => by
    simp only [detailsInternal, detailsInner, chain, List.reverse_cons, List.reverse_nil, List.nil_append]
    rw [addDetail_eq, filterMap_toList]
  | .barrier id m hd, acc => by
    simp only [detailsInternal, detailsInner, chain, List.reverse_cons, List.reverse_nil, List.nil_append]
    rw [addDetail_eq, filterMap_toList]
  | .multi id k cs, acc => by
    simp only [detailsInternal, detailsInner, chain, List.reverse_cons, List.reverse_nil, List.nil_append]
    rw [addDetail_eq, filterMap_toList]
  | .wrap id k c, acc => by
    simp only [detailsInternal, detailsInner, chain, List.reverse_cons, List.filterMap_append]
    rw [addDetail_eq, detailsInternal_eq c acc, filterMap_toList, detailsInner, List.append_assoc]
  | .second id c s, acc => by
    simp only [detailsInternal, detailsInner, chain, List.reverse_cons, List.filterMap_append]
    rw [addDetail_eq, detailsInternal_eq c acc, filterMap_toList, detailsInner, List.append_assoc]

/-- GetAllDetails: every non-empty detail, innermost to outermost, no de-duplication. -/
theorem C19_details (e : Err) : getAllDetails e = detailsInner e := by
  unfold getAllDetails
  rw [detailsInternal_eq]; simp

/-- no de-duplication of details: a repeated detail is reported twice -/
theorem C19_details_not_deduplicated :
    getAllDetails (.wrap [1] (.withDetail (b!"d")) (.wrap [2] (.withDetail (b!"d")) (.leaf [3] (.errorString (b!"x")))))
      = [b!"d", b!"d"] := by decide

/-- …whereas a repeated hint is reported once -/
theorem C19_hints_deduplicated :
    getAllHints (.wrap [1] (.withHint (b!"h")) (.wrap [2] (.withHint (b!"h")) (.leaf [3] (.errorString (b!"x")))))
      = [b!"h"] := by decide

/-- FlattenHints / FlattenDetails: joined by a line containing only `--`. -/
theorem C19_flatten (e : Err) :
    flattenHints e = joinWith (b!"\n--\n") (getAllHints e) ∧ flattenDetails e = joinWith (b!"\n--\n") (getAllDetails e) :=
  ⟨rfl, rfl⟩

/-- GetAllIssueLinks and GetContextTags list outermost first. -/
theorem C19_links_outermost_first (e : Err) : getAllIssueLinks e = (chain e).filterMap layerIssueLink := rfl
theorem C19_tags_outermost_first (e : Err) : getContextTags e = (chain e).filterMap layerTags := rfl

/-- GetTelemetryKeys is the set union of the keys of all layers. -/
theorem C19_keys_union (e : Err) (k : Str) :
    k ∈ getTelemetryKeys e ↔ ∃ n ∈ chain e, k ∈ layerKeys n := by
  simp [getTelemetryKeys, List.mem_flatMap]

end ErrModel
