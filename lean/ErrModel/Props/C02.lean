import ErrModel.Proofs.IsTransfer
import ErrModel.Props.C01
/-
  C02 — Error identity (Is/IsAny) is invariant under network transfer.

  Proof idea: a hop preserves the *labelled* shape vf of an error (text, type mark,
  original type name, stored mark, errno Is-signature at every visible layer —
  `hop_ok`), and `Is` depends on the candidate only through that labelled shape
  once object identity is accounted for (`isB_congr_shape`).

  `NoIdMatch e r` is the coherence of Go identities ("a layer that IS the object r
  has r's mark"); it holds of every real pair of objects and of decoded objects
  (fresh pointers).  `IdFreeIs e r` is the exception the property itself states:
  no layer of `e` answers through an Is method that compares object identity.
-/
namespace ErrModel

/-- k hops of e, reference r local: same answer, never a panic. -/
theorem C02_e (vf : Err → Str) (tag k : Nat) (e r : Err) (hst : stable e = true) (h : NoIdMatch e r) :
    ∃ e', hopsFull vf tag k e = some e' ∧
      (NoIdMatch e' r → is Full e' r = is Full e r) := by
  obtain ⟨e', h1, hs, _⟩ := C01_hops vf tag e hst k
  exact ⟨e', h1, fun h' => by simp only [is]; rw [isB_congr_shape vf e e' r hs h h']⟩

/-- the transferred error is still recognised as itself -/
theorem C02_self (vf : Err → Str) (tag k : Nat) (e : Err) (hst : stable e = true) (hcoh : NoIdMatch e e) :
    ∃ e', hopsFull vf tag k e = some e' ∧ (NoIdMatch e' e → is Full e' e = some true) := by
  obtain ⟨e', h1, hs, _⟩ := C01_hops vf tag e hst k
  refine ⟨e', h1, fun h' => ?_⟩
  have hrefl : isB Full e e = true := by
    obtain ⟨t, ht⟩ := reach_head e
    rw [isB_char, ht]; simp [layerMatch_self]
  simp only [is]
  rw [isB_congr_shape vf e e' e hs hcoh h', hrefl]

/-- No layer of `e` matches `r` through an Is method (the exception the property states). -/
def IdFreeIs (e r : Err) : Prop := ∀ n ∈ reach e, isMethod n r = false

/-- identity-free `Is` sees the reference only through its mark -/
theorem isNoId_ref_congr (e r r' : Err) (hm : getMark Full r' = getMark Full r)
    (hf : IdFreeIs e r) (hf' : IdFreeIs e r') : isNoId e r' = isNoId e r := by
  unfold isNoId
  rw [Bool.eq_iff_iff]
  simp only [List.any_eq_true, Bool.or_eq_true, hm]
  constructor
  · rintro ⟨n, hn, h | h⟩
    · rw [hf' n hn] at h; cases h
    · exact ⟨n, hn, Or.inr h⟩
  · rintro ⟨n, hn, h | h⟩
    · rw [hf n hn] at h; cases h
    · exact ⟨n, hn, Or.inr h⟩

/-- only the reference transferred -/
theorem C02_ref (vf : Err → Str) (tag j : Nat) (e r : Err) (hst : stable r = true) :
    ∃ r', hopsFull vf tag j r = some r' ∧
      (NoIdMatch e r → NoIdMatch e r' → IdFreeIs e r → IdFreeIs e r' → is Full e r' = is Full e r) := by
  obtain ⟨r', h1, hs, _⟩ := C01_hops vf tag r hst j
  refine ⟨r', h1, fun hc hc' hf hf' => ?_⟩
  simp only [is]
  rw [isB_eq_isNoId e r hc, isB_eq_isNoId e r' hc', isNoId_ref_congr e r r' (getMark_congr_shape vf r r' hs) hf hf']

/-- both transferred -/
theorem C02_both (vf : Err → Str) (tag k tag' j : Nat) (e r : Err) (he : stable e = true) (hr : stable r = true) :
    ∃ e' r', hopsFull vf tag k e = some e' ∧ hopsFull vf tag' j r = some r' ∧
      (NoIdMatch e r → NoIdMatch e' r' → IdFreeIs e r → IdFreeIs e' r' → is Full e' r' = is Full e r) := by
  obtain ⟨e', h1, hs, _⟩ := C01_hops vf tag e he k
  obtain ⟨r', h2, hs2, _⟩ := C01_hops vf tag' r hr j
  refine ⟨e', r', h1, h2, fun hc hc' hf hf' => ?_⟩
  simp only [is]
  have hm := getMark_congr_shape vf r r' hs2
  rw [isB_eq_isNoId e r hc, isB_eq_isNoId e' r' hc', isNoId_eq_isT vf, isNoId_eq_isT vf, hs, hm]
  -- both sides are `isT` on the same shape vf and the same reference mark; Is methods are excluded
  unfold isT
  congr 1
  rw [Bool.eq_iff_iff]
  have hfT : ∀ n ∈ reachT (shape vf e), isMethodL n.lbl r = false := by
    intro n hn
    rw [reachT_shape vf] at hn
    obtain ⟨m, hm1, hm2⟩ := List.mem_map.mp hn
    rw [← hm2, shape_lbl vf, isMethodL_label]; exact hf m hm1
  have hfT' : ∀ n ∈ reachT (shape vf e), isMethodL n.lbl r' = false := by
    intro n hn
    rw [← hs, reachT_shape vf] at hn
    obtain ⟨m, hm1, hm2⟩ := List.mem_map.mp hn
    rw [← hm2, shape_lbl vf, isMethodL_label]; exact hf' m hm1
  simp only [List.any_eq_true, Bool.or_eq_true]
  constructor
  · rintro ⟨n, hn, h | h⟩
    · rw [hfT' n hn] at h; cases h
    · exact ⟨n, hn, Or.inr h⟩
  · rintro ⟨n, hn, h | h⟩
    · rw [hfT n hn] at h; cases h
    · exact ⟨n, hn, Or.inr h⟩

/-- The stated exception is real: an errno matches the local sentinel through its Is
    method but not a transferred copy of the sentinel (whose identity is gone and whose
    mark differs). -/
theorem C02_idfree_needed :
    let e : Err := .leaf [100] (.errno 2 (b!"no such file or directory") false false true false false)
    let r : Err := .leaf idErrNotExist (.errorString (b!"file does not exist"))
    let r' : Err := .leaf [2000, 7] (.errorString (b!"file does not exist"))
    is Full e r = some true ∧ is Full e r' = some false := by decide

/-- identities of decoded objects are fresh: if no layer of `e'` has the reference's
    identity and no value-kind equality applies, coherence holds trivially -/
theorem noIdMatch_of_fresh (e' r : Err) (h : ∀ n ∈ reach e', goEq n r = false) : NoIdMatch e' r := by
  intro n hn hg
  rw [h n hn] at hg
  cases hg

end ErrModel
