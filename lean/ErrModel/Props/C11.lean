import ErrModel.Proofs.IsTransfer
import ErrModel.Props.C01
import ErrModel.Props.C19
/-
  C11 — Annotations survive network transfer.

  A hop preserves the labelled shape of an error (`hop_ok`), and the label of a layer
  contains everything the layer contributes to the public accessors (`Ann`: hint,
  detail, issue link, telemetry keys, domain, context tags, HTTP/gRPC code, the
  assertion / unimplemented / issue-link flags, the timeout predicate, the per-layer
  safe details — except for barrier and secondary layers, which embed a rendering of
  the hidden error — and the printed stack that GetReportableStackTrace /
  GetOneLineSource parse).  Every accessor is a function of the chain of those
  labels, hence invariant.
-/
namespace ErrModel

variable (vf : Err → Str)

/-- the annotations of the layers of the single-cause chain, outermost first -/
def annChain (e : Err) : List Ann := (chain e).map (annOf vf)

/-- read the same list off a labelled shape -/
def annChainT : TTree → List Ann
  | .node l [k] => l.ann :: (if l.multi then [] else annChainT k)
  | .node l _ => [l.ann]

theorem annChainT_shape : (e : Err) → annChainT (shape vf e) = annChain vf e
  | .leaf id k => by simp [shape, annChainT, annChain, chain, label]
  | .barrier id m h => by simp [shape, annChainT, annChain, chain, label]
  | .wrap id k c => by
    simp only [shape, annChainT, annChain, chain, label, isMultiNode, List.map]
    rw [annChainT_shape c]; simp [annChain]
  | .second id c s => by
    simp only [shape, annChainT, annChain, chain, label, isMultiNode, List.map]
    rw [annChainT_shape c]; simp [annChain]
  | .multi id k cs => by
    simp only [shape, annChain, chain, label, isMultiNode, List.map]
    cases hcs : shapeL vf cs with
    | nil => simp [annChainT]
    | cons a r => cases r <;> simp [annChainT]

/-- The annotation chain is the same after any number of hops between knowing processes. -/
theorem C11_annotations (tag k : Nat) (e : Err) (h : stable e = true) :
    ∃ e', hopsFull vf tag k e = some e' ∧ annChain vf e' = annChain vf e := by
  obtain ⟨e', h1, hs, _⟩ := C01_hops vf tag e h k
  exact ⟨e', h1, by rw [← annChainT_shape, ← annChainT_shape, hs]⟩

/-! every accessor is a function of the annotation chain -/

def hintNE' (h : Option Str) : Option Str :=
  match h with
  | some s => if s = [] then none else some s
  | none => none

theorem hints_of_anns (e : Err) :
    getAllHints e = (((annChain vf e).reverse.filterMap (fun a => hintNE' a.hint))).eraseDups := by
  rw [C19_hints]
  congr 1
  simp [hintsInner, annChain, List.filterMap_map, ← List.map_reverse, Function.comp_def, hintNE', annOf]
  rfl

theorem details_of_anns (e : Err) :
    getAllDetails e = (annChain vf e).reverse.filterMap (fun a => hintNE' a.detail) := by
  rw [C19_details]
  simp [detailsInner, annChain, List.filterMap_map, ← List.map_reverse, Function.comp_def, hintNE', annOf]
  rfl

theorem links_of_anns (e : Err) : getAllIssueLinks e = (annChain vf e).filterMap (·.link) := by
  simp [getAllIssueLinks, annChain, List.filterMap_map, Function.comp_def, annOf]
theorem keys_of_anns (e : Err) : getTelemetryKeys e = (annChain vf e).flatMap (·.keys) := by
  simp [getTelemetryKeys, annChain, List.flatMap_map, annOf]
theorem domain_of_anns (e : Err) : getDomain e = ((annChain vf e).findSome? (·.domain)).getD noDomain := by
  simp [getDomain, annChain, List.findSome?_map, Function.comp_def, annOf]
theorem tags_of_anns (e : Err) : getContextTags e = (annChain vf e).filterMap (·.tags) := by
  simp [getContextTags, annChain, List.filterMap_map, Function.comp_def, annOf]
theorem http_of_anns (e : Err) (d : Nat) : getHTTPCode e d = ((annChain vf e).findSome? (·.http)).getD d := by
  simp [getHTTPCode, annChain, List.findSome?_map, Function.comp_def, annOf]
theorem grpc_of_anns (e : Err) : getGrpcCode e = ((annChain vf e).findSome? (·.grpc)).getD 2 := by
  simp [getGrpcCode, annChain, List.findSome?_map, Function.comp_def, annOf]
theorem assert_of_anns (e : Err) : hasAssertionFailure e = (annChain vf e).any (·.isAssert) := by
  simp [hasAssertionFailure, annChain, List.any_map, Function.comp_def, annOf]
theorem haslink_of_anns (e : Err) : hasIssueLink e = (annChain vf e).any (·.isLink) := by
  simp [hasIssueLink, annChain, List.any_map, Function.comp_def, annOf]
theorem timeout_of_anns (e : Err) : isTimeout e = (annChain vf e).any (·.timeout) := by
  simp [isTimeout, annChain, List.any_map, Function.comp_def, annOf]

/-- the per-layer safe details (barrier and secondary layers excepted) -/
def safeChain (e : Err) : List (List Str) := (chain e).map (safeOf vf)
theorem safe_of_anns (e : Err) : safeChain vf e = (annChain vf e).map (·.safe) := by
  simp [safeChain, annChain, annOf]

/-- the printed stacks of the reportable layers (what GetReportableStackTrace parses) and
    the innermost one (what GetOneLineSource reports) -/
def stackChain (e : Err) : List (Option Str) := (chain e).map (layerStackStr Full)
theorem stacks_of_anns (e : Err) : stackChain e = (annChain vf e).map (·.stack) := by
  simp [stackChain, annChain, annOf]

/-- C11, accessor by accessor, for any number of hops. -/
theorem C11_accessors (tag k : Nat) (e : Err) (h : stable e = true) :
    ∃ e', hopsFull vf tag k e = some e' ∧
      getAllHints e' = getAllHints e ∧ getAllDetails e' = getAllDetails e ∧
      getAllIssueLinks e' = getAllIssueLinks e ∧ getTelemetryKeys e' = getTelemetryKeys e ∧
      getDomain e' = getDomain e ∧ getContextTags e' = getContextTags e ∧
      (∀ d, getHTTPCode e' d = getHTTPCode e d) ∧ getGrpcCode e' = getGrpcCode e ∧
      hasAssertionFailure e' = hasAssertionFailure e ∧ hasIssueLink e' = hasIssueLink e ∧
      isTimeout e' = isTimeout e ∧ safeChain vf e' = safeChain vf e ∧ stackChain e' = stackChain e := by
  obtain ⟨e', h1, ha⟩ := C11_annotations vf tag k e h
  refine ⟨e', h1, ?_, ?_, ?_, ?_, ?_, ?_, ?_, ?_, ?_, ?_, ?_, ?_, ?_⟩
  · rw [hints_of_anns vf, hints_of_anns vf, ha]
  · rw [details_of_anns vf, details_of_anns vf, ha]
  · rw [links_of_anns vf, links_of_anns vf, ha]
  · rw [keys_of_anns vf, keys_of_anns vf, ha]
  · rw [domain_of_anns vf, domain_of_anns vf, ha]
  · rw [tags_of_anns vf, tags_of_anns vf, ha]
  · intro d; rw [http_of_anns vf, http_of_anns vf, ha]
  · rw [grpc_of_anns vf, grpc_of_anns vf, ha]
  · rw [assert_of_anns vf, assert_of_anns vf, ha]
  · rw [haslink_of_anns vf, haslink_of_anns vf, ha]
  · rw [timeout_of_anns vf, timeout_of_anns vf, ha]
  · rw [safe_of_anns vf, safe_of_anns vf, ha]
  · rw [stacks_of_anns vf, stacks_of_anns vf, ha]

/-- unimplemented flag: the root cause keeps its kind -/
theorem C11_unimplemented (tag k : Nat) (e : Err) (h : stable e = true) :
    ∃ e', hopsFull vf tag k e = some e' ∧
      ((annChain vf e').getLast?.map (·.isUnimpl)) = ((annChain vf e).getLast?.map (·.isUnimpl)) := by
  obtain ⟨e', h1, ha⟩ := C11_annotations vf tag k e h
  exact ⟨e', h1, by rw [ha]⟩

end ErrModel
