import ErrModel.Proofs.EngineBasic
import ErrModel.Proofs.EngineLW
import ErrModel.Proofs.LexUnlex
import ErrModel.Proofs.Regular
/-
  C06 — Redactable renderings are well-formed and congruent with plain ones.

  Main theorem (`C06_wellformed`): for EVERY error whose stored redactable strings are
  well-formed (`WFE`: the messages / prefixes built by `redact.Sprintf` at construction — whatever
  the format arguments, hints, details, paths, tag keys and values, domains, type names,
  opaque messages ... contain: marker runes, newlines anywhere, NUL, invalid UTF-8), the
  redactable rendering with `%v`/`%s`/`%+v`, what `redact.Sprintf("%v", err)` returns, and
  its `Redact()` form are line-well-formed (`LW`: markers balanced, never nested, balanced
  within every line).  It is proved on the token form of the rendering through the whole
  engine: the redact buffer model (`LW_assembleT`, `LW_escapeBytesT`, `LW_redactT`), the
  `state.Write` machine (`writeLoop_inv`), entry collection and the two layouts, by mutual
  induction over the error tree including hidden and multi-cause parts (`ents_inv`).
  `C06_bytes` transfers it to the byte string when no three plain bytes of the rendering
  spell a marker (`NoSpell`).  Also: unsupported verbs are refused; non-redactable entries
  are escaped by `redact.EscapeBytes`; the plain and redactable modes collect the same
  buffers (`C06_collect_congruent`).
-/
namespace ErrModel

/-- in redactable mode `%q`, `%x`, `%X` are refused with the `%!verb(type)` notation -/
theorem C06_refused_q_x_X (sp : Spec) (e : Err) (hv : sp.verb = vQ ∨ sp.verb = vx ∨ sp.verb = vX) :
    formatVerb true sp e = .bad (badVerb sp.verb e) := by
  rcases hv with hv | hv | hv <;> simp [formatVerb, hv, vV, vS, vQ, vx, vX]

/-- in redactable mode `%#v` is refused -/
theorem C06_refused_sharp_v (sp : Spec) (e : Err) (hv : sp.verb = vV) (hs : sp.sharp = true) :
    formatVerb true sp e = .bad (badVerb sp.verb e) := by
  simp [formatVerb, hv, hs, vV, vS]

/-- any other verb is refused in both modes -/
theorem C06_refused_other (red : Bool) (sp : Spec) (e : Err)
    (h : sp.verb ≠ vV ∧ sp.verb ≠ vS ∧ sp.verb ≠ vQ ∧ sp.verb ≠ vx ∧ sp.verb ≠ vX) :
    formatVerb red sp e = .bad (badVerb sp.verb e) := by
  obtain ⟨h1, h2, h3, h4, h5⟩ := h
  simp [formatVerb, h1, h2, h3, h4, h5]

/-- the refusal mentions only the verb and the Go type of the error: nothing of its contents -/
theorem C06_refusal_is_safe (v : UInt8) (e e' : Err) (h : e.ty = e'.ty) : badVerb v e = badVerb v e' := by
  simp [badVerb, h]

/-- the supported verbs in redactable mode: `%v`, `%s` (one line) and `%+v` (verbose); the
    redactable buffer is handed to the redact printer as it is -/
theorem C06_supported (sp : Spec) (e : Err) (hv : sp.verb = vV ∨ sp.verb = vS) (hs : sp.sharp = false) :
    formatVerb true sp e = .direct (render true (sp.verb = vV && sp.plus) e) := by
  rcases hv with hv | hv <;> cases hp : sp.plus <;> simp [formatVerb, finishDisplay, hv, hs, hp, vV, vS]

/-! ### non-redactable entries never enter a redactable rendering unescaped -/

theorem C06_unsafe_entry_escaped (en : Entry) (s : Toks) (h : en.redactable = false) :
    escIfNeeded true en s = escapeBytesT (stripT s) := by
  simp [escIfNeeded, h]

theorem C06_plain_entry_untouched (en : Entry) (s : Toks) : escIfNeeded false en s = s := by
  simp [escIfNeeded]

/-- an entry is flagged redactable only when its buffer came from a SafeFormatError method
    (or a special case) *and* the output is redactable -/
theorem C06_redactable_flag (s : LState) (bufIsRedactable redOut wd : Bool) (d : Nat) (t : Str) :
    (collect s bufIsRedactable redOut wd d t).redactable = (bufIsRedactable && redOut) := by
  unfold collect
  cases bufIsRedactable <;> cases redOut <;> simp

/-- the two output modes see the same buffers: the plain mode strips the markers of a
    redactable buffer, and leaves a non-redactable one as it is -/
theorem C06_collect_congruent (s : LState) (b wd : Bool) (d : Nat) (t : Str) :
    (collect s b false wd d t).head = (if b then bytesT (stripT (collect s b true wd d t).head) else (collect s b true wd d t).head) ∧
    (collect s b false wd d t).details = (if b then bytesT (stripT (collect s b true wd d t).details) else (collect s b true wd d t).details) := by
  unfold collect
  cases b <;> simp

/-! ### well-formedness of redactable renderings, for all string contents -/

/-- `%v` / `%s` (detail = false) and `%+v` (detail = true) in redactable mode -/
theorem C06_wellformed (e : Err) (h : WFE e) (detail : Bool) : LW (renderT true detail e) :=
  renderT_LW detail e h

/-- what `redact.Sprintf("%v" / "%+v", err)` returns: the rendering passed through the redact printer -/
theorem C06_wellformed_sprintf (e : Err) (h : WFE e) (detail : Bool) :
    LW (assembleT [.preT (renderT true detail e)]) :=
  LW_assembleT _ (by intro g hg; simp at hg; subst hg; exact renderT_LW detail e h)

/-- and its `Redact()` form -/
theorem C06_wellformed_redacted (e : Err) (h : WFE e) (detail : Bool) :
    LW (redactT (assembleT [.preT (renderT true detail e)])) :=
  LW_redactT _ (C06_wellformed_sprintf e h detail)

/-- the plain rendering contains no marker token at all -/
theorem C06_plain_no_markers_in_entries (s : LState) (b wd : Bool) (d : Nat) (t : Str) (hb : b = true) :
    AllBytes (collect s b false wd d t).head ∧ AllBytes (collect s b false wd d t).details := by
  subst hb
  constructor <;> simp [collect] <;> exact allBytes_bytesT _

/-! ### congruence with the plain rendering (one-line form, regular text)

  `RegE` (Proofs/Regular.lean): every string a layer shows on one line is valid UTF-8 without marker runes (`Clean`), begins and ends
  with a non-newline byte and has no doubled newline; stored redactable strings are well-formed.
  The inputs are marker-free in the sense of the property: that is what `Clean` says.
  The verbose form is decided by the correspondence and the oracle. -/

/-- stripping the markers (as tokens) from the redactable `%v`/`%s` rendering gives exactly the plain
    rendering of the same error, at any depth -/
theorem C06_congruent_v (e : Err) (h : RegE e) : stripT (renderT true false e) = render false false e := by
  rw [stripT_renderT_v e h true, render_v_eq_errText e h]

/-- the same on the bytes a caller holds (`StripMarkers` of the redactable string), unless three
    adjacent plain bytes of the rendering spell a marker -/
theorem C06_congruent_v_bytes (e : Err) (h : RegE e) (hs : NoSpell (eraseLabel (renderT true false e))) :
    stripMarkers (render true false e) = render false false e := by
  have : stripMarkers (render true false e) = stripT (lex (unlex (renderT true false e))) := rfl
  rw [this, lex_unlex_erase _ hs, stripT_eraseLabel, C06_congruent_v e h]

/-- both renderings are the Error() text -/
theorem C06_both_are_error_text (e : Err) (h : RegE e) :
    stripT (renderT true false e) = errText e ∧ render false false e = errText e :=
  ⟨stripT_renderT_v e h true, render_v_eq_errText e h⟩

/-- on bytes: the string a caller receives is `unlex` of the tokens; lexing it gives the same
    tokens back — hence the same well-formedness — unless three adjacent plain bytes of the
    rendering spell a marker -/
theorem C06_bytes (e : Err) (h : WFE e) (detail : Bool) (hs : NoSpell (eraseLabel (renderT true detail e))) :
    LW (lex (render true detail e)) := by
  unfold render
  rw [lex_unlex_erase _ hs]
  exact lw_eraseLabel _ false false (renderT_LW detail e h)

/-- the hypothesis is met by what the constructors store: a message assembled by the redact
    printer is well-formed (and so are all its byte-level readings without a spelled marker) -/
theorem C06_stored_by_constructors (segs : List SegT) (hs : ∀ g ∈ segs, g.ok) (hn : NoSpell (eraseLabel (assembleT segs))) :
    LW (lex (unlex (assembleT segs))) := by
  rw [lex_unlex_erase _ hn]; exact lw_eraseLabel _ false false (LW_assembleT segs hs)

/-- a concrete hostile instance of the hypothesis: unsafe pieces with marker runes, newlines at
    both ends, NUL and invalid UTF-8 between safe pieces with a marker rune -/
example : LW (assembleT [.lit (b!"a‹b: "), .arg ([10, 0xE2, 0x80, 0xB9, 0xFF, 10, 10, 0, 10]), .lit (b!" ›"), .arg []]) :=
  LW_assembleT _ (by intro g hg; simp at hg; rcases hg with rfl | rfl | rfl | rfl <;> trivial)

end ErrModel
