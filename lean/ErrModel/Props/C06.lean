import ErrModel.Proofs.EngineBasic
/-
  C06 — Redactable renderings are well-formed and congruent with plain ones.

  Proved here about the engine model: unsupported verbs are refused in redactable mode;
  every entry that was not produced by a SafeFormatError method is escaped and enclosed by
  `redact.EscapeBytes` before it enters a redactable rendering; the plain rendering is
  built from the same buffers with the markers stripped (the two modes run the same write
  machine on the same operations).  That `EscapeBytes` / `Sprintf` outputs are themselves
  balanced per line is the contract of the redact package (model: Basic/Redact.lean, tied
  by the RC stream); see DESIGN (trusted base) for what remains conditional on it.
-/
namespace ErrModel

/-- in redactable mode `%q`, `%x`, `%X` are refused with the `%!verb(type)` notation -/
theorem C06_refused_q_x_X (sp : Spec) (e : Err) (hv : sp.verb = vQ ∨ sp.verb = vx ∨ sp.verb = vX) :
    formatVerb true sp e = .bad (badVerb sp.verb e) := by
  rcases hv with hv | hv | hv <;> simp [formatVerb, hv, vV, vS, vQ, vx, vX]

/-- in redactable mode `%#v` is refused -/
theorem C06_refused_sharp_v (sp : Spec) (e : Err) (hv : sp.verb = vV) (hs : sp.sharp = true) :
    formatVerb true sp e = .bad (badVerb sp.verb e) := by
  simp [formatVerb, hv, hs, vV, vS]

/-- any other verb is refused in both modes -/
theorem C06_refused_other (red : Bool) (sp : Spec) (e : Err)
    (h : sp.verb ≠ vV ∧ sp.verb ≠ vS ∧ sp.verb ≠ vQ ∧ sp.verb ≠ vx ∧ sp.verb ≠ vX) :
    formatVerb red sp e = .bad (badVerb sp.verb e) := by
  obtain ⟨h1, h2, h3, h4, h5⟩ := h
  simp [formatVerb, h1, h2, h3, h4, h5]

/-- the refusal mentions only the verb and the Go type of the error: nothing of its contents -/
theorem C06_refusal_is_safe (v : UInt8) (e e' : Err) (h : e.ty = e'.ty) : badVerb v e = badVerb v e' := by
  simp [badVerb, h]

/-- the supported verbs in redactable mode: `%v`, `%s` (one line) and `%+v` (verbose); the
    redactable buffer is handed to the redact printer as it is -/
theorem C06_supported (sp : Spec) (e : Err) (hv : sp.verb = vV ∨ sp.verb = vS) (hs : sp.sharp = false) :
    formatVerb true sp e = .direct (render true (sp.verb = vV && sp.plus) e) := by
  rcases hv with hv | hv <;> cases hp : sp.plus <;> simp [formatVerb, finishDisplay, hv, hs, hp, vV, vS]

/-! ### non-redactable entries never enter a redactable rendering unescaped -/

theorem C06_unsafe_entry_escaped (en : Entry) (s : Toks) (h : en.redactable = false) :
    escIfNeeded true en s = escapeBytesT (stripT s) := by
  simp [escIfNeeded, h]

theorem C06_plain_entry_untouched (en : Entry) (s : Toks) : escIfNeeded false en s = s := by
  simp [escIfNeeded]

/-- an entry is flagged redactable only when its buffer came from a SafeFormatError method
    (or a special case) *and* the output is redactable -/
theorem C06_redactable_flag (s : LState) (bufIsRedactable redOut wd : Bool) (d : Nat) (t : Str) :
    (collect s bufIsRedactable redOut wd d t).redactable = (bufIsRedactable && redOut) := by
  unfold collect
  cases bufIsRedactable <;> cases redOut <;> simp

/-- the two output modes see the same buffers: the plain mode strips the markers of a
    redactable buffer, and leaves a non-redactable one as it is -/
theorem C06_collect_congruent (s : LState) (b wd : Bool) (d : Nat) (t : Str) :
    (collect s b false wd d t).head = (if b then bytesT (stripT (collect s b true wd d t).head) else (collect s b true wd d t).head) ∧
    (collect s b false wd d t).details = (if b then bytesT (stripT (collect s b true wd d t).details) else (collect s b true wd d t).details) := by
  unfold collect
  cases b <;> simp

end ErrModel
