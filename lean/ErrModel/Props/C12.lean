import ErrModel.Props.C11
import ErrModel.Props.C15
/-
  C12 — Information declared safe is retained in reports.

  What the library declares PII-free reaches `GetAllSafeDetails` through the per-layer
  `SafeDetails()` (`layerDetails`), is folded into the details of a barrier / secondary
  layer that hides it (`chainFill`), survives any number of hops between knowing
  processes (C11: the per-layer safe details are part of the preserved annotations), and
  the report carries the redacted verbose rendering and one type line per layer.
  The retention of the safe parts *inside* a redactable message by `Redact()` is the
  contract of the redact package (DESIGN: trusted base), checked by the correspondence
  streams and the token oracle.
-/
namespace ErrModel

variable (vf : Err → Str)

/-! ### per layer: the safe fields are the layer's safe details -/

theorem C12_telemetry_keys (id : Ident) (keys : List Str) (c : Err) (P : Proc) :
    layerDetails P vf (.wrap id (.withTelemetry keys) c) = keys := by simp [layerDetails]

theorem C12_domain (id : Ident) (d : Str) (c : Err) (P : Proc) :
    layerDetails P vf (.wrap id (.withDomain d) c) = [d] := by simp [layerDetails]

theorem C12_issue_link (id : Ident) (url det : Str) (c : Err) (P : Proc) :
    layerDetails P vf (.wrap id (.withIssueLink url det) c) = [url, det] := by simp [layerDetails]

theorem C12_unimplemented_link (id : Ident) (msg url det : Str) (P : Proc) :
    layerDetails P vf (.leaf id (.unimplemented msg url det)) = [url, det] := by simp [layerDetails]

theorem C12_safe_details (id : Ident) (l : List Str) (c : Err) (P : Proc) :
    layerDetails P vf (.wrap id (.withSafeDetails l) c) = l := by simp [layerDetails]

theorem C12_stack (id : Ident) (st : Stack) (c : Err) (P : Proc) :
    layerDetails P vf (.wrap id (.withStack st) c) = [printStack st] := by simp [layerDetails]

/-- the message of a library leaf / prefix wrapper: its redacted form (safe parts kept) -/
theorem C12_message (id : Ident) (msg : RStr) (P : Proc) :
    layerDetails P vf (.leaf id (.leafError msg)) = [stripMarkers (redactS msg)] := by simp [layerDetails, redactStrip]

theorem C12_prefix (id : Ident) (p : RStr) (c : Err) (P : Proc) :
    layerDetails P vf (.wrap id (.withPrefix p) c) = [stripMarkers (redactS p)] := by simp [layerDetails, redactStrip]

/-- the context tags attached locally: one detail per tag, the key and a Safe value kept -/
theorem C12_tags (id : Ident) (tags : List (Str × Str)) (kinds : List Nat) (c : Err) (P : Proc) :
    layerDetails P vf (.wrap id (.withContext tags kinds none) c) = redactTags tags kinds := by simp [layerDetails]

/-- an opaque layer (a type the receiver does not know) keeps the details it received -/
theorem C12_opaque_wrapper (id : Ident) (p : Str) (d : Det) (mt : Nat) (hid : List Enc) (c : Err) (P : Proc) :
    layerDetails P vf (.wrap id (.opaqueWrapper p d mt hid) c) = d.rep := by simp [layerDetails]

/-! ### GetAllSafeDetails covers every layer of the chain, with its type name and mark -/

theorem C12_all_details_cover (P : Proc) (e n : Err) (h : n ∈ chain e) :
    (origTypeName n, typeMark P n, layerDetails P vf n) ∈ getAllSafeDetails P vf e := by
  unfold getAllSafeDetails
  exact List.mem_map.mpr ⟨n, h, rfl⟩

/-! ### behind a barrier or in a secondary error: folded into the hiding layer's details -/

theorem fillDetails_mem (mark : TMark) (sd acc : List Str) (d : Str) (h : d ∈ sd) :
    (lit "  " ++ d) ∈ fillDetails mark sd acc := by
  unfold fillDetails
  have hne : sd ≠ [] := by intro h0; rw [h0] at h; simp at h
  simp only [hne, if_false]
  simp only [List.mem_append, List.mem_map]
  exact Or.inr ⟨d, h, rfl⟩

theorem chainFill_mem (P : Proc) : (x n : Err) → n ∈ chain x → ∀ d ∈ layerDetails P vf n, (lit "  " ++ d) ∈ chainFill P vf x
  | .leaf id k, n, hn, d, hd => by
    simp only [chain, List.mem_singleton] at hn; subst hn
    simp only [chainFill]; exact fillDetails_mem _ _ _ _ hd
  | .barrier id m h, n, hn, d, hd => by
    simp only [chain, List.mem_singleton] at hn; subst hn
    simp only [chainFill]; exact fillDetails_mem _ _ _ _ hd
  | .multi id k cs, n, hn, d, hd => by
    simp only [chain, List.mem_singleton] at hn; subst hn
    simp only [chainFill]; exact fillDetails_mem _ _ _ _ hd
  | .wrap id k c, n, hn, d, hd => by
    simp only [chain, List.mem_cons] at hn
    simp only [chainFill, List.mem_append]
    rcases hn with hn | hn
    · subst hn; exact Or.inl (fillDetails_mem _ _ _ _ hd)
    · exact Or.inr (chainFill_mem P c n hn d hd)
  | .second id c s, n, hn, d, hd => by
    simp only [chain, List.mem_cons] at hn
    simp only [chainFill, List.mem_append]
    rcases hn with hn | hn
    · subst hn; exact Or.inl (fillDetails_mem _ _ _ _ hd)
    · exact Or.inr (chainFill_mem P c n hn d hd)

/-- every safe detail of every layer hidden behind a (locally built) barrier is among the
    barrier's own safe details, indented -/
theorem C12_behind_barrier (P : Proc) (id : Ident) (smsg : RStr) (h n : Err) (hn : n ∈ chain h)
    (d : Str) (hd : d ∈ layerDetails P vf n) :
    (lit "  " ++ d) ∈ layerDetails P vf (.barrier id ⟨smsg, none⟩ h) := by
  simp only [layerDetails, List.mem_append]
  exact Or.inl (chainFill_mem vf P h n hn d hd)

/-- the barrier also carries the redacted verbose rendering of what it hides -/
theorem C12_barrier_rendering (P : Proc) (id : Ident) (smsg : RStr) (h : Err) :
    vf h ∈ layerDetails P vf (.barrier id ⟨smsg, none⟩ h) := by
  simp [layerDetails]

/-- every safe detail of every layer of a secondary error is among the details of the
    layer that attaches it -/
theorem C12_in_secondary (P : Proc) (id : Ident) (c s n : Err) (hn : n ∈ chain s)
    (d : Str) (hd : d ∈ layerDetails P vf n) :
    (lit "  " ++ d) ∈ layerDetails P vf (.second id c s) := by
  simp only [layerDetails]
  exact chainFill_mem vf P s n hn d hd

/-! ### after transfer between processes that know the types -/

/-- the per-layer safe details are the same after any number of hops -/
theorem C12_after_hops (tag k : Nat) (e : Err) (h : stable e = true) :
    ∃ e', hopsFull vf tag k e = some e' ∧ safeChain vf e' = safeChain vf e := by
  obtain ⟨e', h1, hr⟩ := C11_accessors vf tag k e h
  exact ⟨e', h1, hr.2.2.2.2.2.2.2.2.2.2.2.1⟩

/-! ### the report -/

/-- the report message carries the whole redacted verbose rendering (where Safe() arguments,
    constant messages, keys, domains, links and tag keys are printed outside the markers) -/
theorem C12_report_has_rendering (P : Proc) (trim : List Str) (e : Err) :
    ∃ a b, (buildReport P vf trim e).message = a ++ verboseRedacted e ++ b := by
  obtain ⟨t, ht⟩ := C15_message_head P vf trim e
  exact ⟨srcPrefix P e, compHeader ++ t, by rw [← ht]; simp [List.append_assoc]⟩

/-- the `error types` extra names the type of every layer, multi-cause branches included -/
theorem C12_report_has_types (P : Proc) (trim : List Str) (e n : Err) (hn : n ∈ visitAll e) :
    ∃ a b, (buildReport P vf trim e).types = a ++ typesLine (layerOf P vf trim n) ++ b := by
  rw [C15_types]
  have hm : layerOf P vf trim n ∈ (reportLayers P vf trim e).reverse := by
    simp only [List.mem_reverse, reportLayers]
    exact List.mem_map.mpr ⟨n, hn, rfl⟩
  obtain ⟨s, t, hst⟩ := List.append_of_mem hm
  rw [hst]
  exact ⟨s.flatMap typesLine, t.flatMap typesLine, by simp [List.flatMap_append, List.append_assoc]⟩

end ErrModel
