import ErrModel.Generated.UnwrapFacts
import ErrModel.Accessors
import ErrModel.Proofs.Is
import ErrModel.Ctor
import ErrModel.Props.C11
/-
  C07 — Barriers and secondary errors hide their payload from cause analysis.

  `forget d e` replaces every hidden sub-error of `e` (barrier payloads, secondary
  errors; at any depth of the visible tree) by the fixed error `d`.  The theorems say
  that cause analysis cannot tell `e` from `forget d e`: the hidden errors are
  unreachable through Unwrap/Cause/UnwrapAll and contribute nothing to Is, IsAny and the
  Has*/Get* accessors.  The reference given to Mark is not stored at all: only its mark
  (message + type chain) is (`cMark`).
-/
namespace ErrModel

mutual
def forget (d : Err) : Err → Err
  | .leaf id k => .leaf id k
  | .barrier id m _ => .barrier id m d
  | .wrap id k c => .wrap id k (forget d c)
  | .second id c _ => .second id (forget d c) d
  | .multi id k cs => .multi id k (forgetL d cs)
def forgetL (d : Err) : List Err → List Err
  | [] => []
  | e :: r => forget d e :: forgetL d r
end

/-- A barrier has no cause: Unwrap / UnwrapOnce return nil, UnwrapAll stops at it. -/
theorem C07_barrier_unwrap (id : Ident) (m : BarrierMsg) (h : Err) :
    unwrapOnce (.barrier id m h) = none ∧ unwrapAll (.barrier id m h) = .barrier id m h ∧
    unwrapMulti (.barrier id m h) = [] := ⟨rfl, rfl, rfl⟩

/-- The secondary error is not the cause. -/
theorem C07_secondary_unwrap (id : Ident) (c s : Err) :
    unwrapOnce (.second id c s) = some c ∧ unwrapAll (.second id c s) = unwrapAll c := ⟨rfl, rfl⟩

mutual
theorem text_forget (d : Err) : (e : Err) → text (forget d e) = text e
  | .leaf id k => rfl
  | .barrier id m h => rfl
  | .wrap id k c => by simp [forget, text, text_forget d c]
  | .second id c s => by simp [forget, text, text_forget d c]
  | .multi id k cs => by simp [forget, text, textList_forget d cs]
theorem textList_forget (d : Err) : (cs : List Err) → textList (forgetL d cs) = textList cs
  | [] => rfl
  | e :: r => by simp [forgetL, textList, text_forget d e, textList_forget d r]
end

/-- Error() does not depend on hidden errors (the barrier prints its own message). -/
theorem C07_text (d e : Err) : text (forget d e) = text e := text_forget d e

theorem chain_forget (d : Err) : (e : Err) → chain (forget d e) = (chain e).map (forget d)
  | .leaf id k => rfl
  | .barrier id m h => by simp [forget, chain]
  | .wrap id k c => by simp [forget, chain, chain_forget d c]
  | .second id c s => by simp [forget, chain, chain_forget d c]
  | .multi id k cs => by simp [forget, chain]

/-- per-layer annotation functions ignore hidden sub-errors -/
theorem layer_forget (d : Err) (n : Err) :
    layerHint (forget d n) = layerHint n ∧ layerDetail (forget d n) = layerDetail n ∧
    layerIssueLink (forget d n) = layerIssueLink n ∧ layerKeys (forget d n) = layerKeys n ∧
    layerDomain (forget d n) = layerDomain n ∧ layerTags (forget d n) = layerTags n ∧
    layerHTTP (forget d n) = layerHTTP n ∧ layerGrpc (forget d n) = layerGrpc n ∧
    isAssertionFailure (forget d n) = isAssertionFailure n ∧ isWithIssueLink (forget d n) = isWithIssueLink n ∧
    timeoutLayer (forget d n) = timeoutLayer n ∧ isUnimplementedError (forget d n) = isUnimplementedError n := by
  cases n with
  | wrap id k c =>
    cases k <;> simp [forget, layerHint, layerDetail, layerIssueLink, layerKeys, layerDomain, layerTags, layerHTTP,
      layerGrpc, isAssertionFailure, isWithIssueLink, timeoutLayer, isUnimplementedError]
  | _ => simp [forget, layerHint, layerDetail, layerIssueLink, layerKeys, layerDomain, layerTags, layerHTTP,
      layerGrpc, isAssertionFailure, isWithIssueLink, timeoutLayer, isUnimplementedError]

theorem map_layer_forget {α : Type} (d : Err) (f : Err → α) (hf : ∀ n, f (forget d n) = f n) (l : List Err) :
    (l.map (forget d)).map f = l.map f := by
  simp [List.map_map, Function.comp_def, hf]

/-- The Get*/Has* accessors are blind to hidden errors: hints, details, issue links,
    telemetry keys, domain, context tags, HTTP and gRPC codes, the assertion /
    issue-link flags and the timeout predicate. -/
theorem C07_accessors (d e : Err) :
    getAllHints (forget d e) = getAllHints e ∧ getAllDetails (forget d e) = getAllDetails e ∧
    getAllIssueLinks (forget d e) = getAllIssueLinks e ∧ getTelemetryKeys (forget d e) = getTelemetryKeys e ∧
    getDomain (forget d e) = getDomain e ∧ getContextTags (forget d e) = getContextTags e ∧
    (∀ dflt, getHTTPCode (forget d e) dflt = getHTTPCode e dflt) ∧ getGrpcCode (forget d e) = getGrpcCode e ∧
    hasAssertionFailure (forget d e) = hasAssertionFailure e ∧ hasIssueLink (forget d e) = hasIssueLink e ∧
    isTimeout (forget d e) = isTimeout e := by
  have hl := layer_forget d
  refine ⟨?_, ?_, ?_, ?_, ?_, ?_, ?_, ?_, ?_, ?_, ?_⟩
  · rw [C19_hints, C19_hints]
    congr 1
    simp only [hintsInner, chain_forget, ← List.map_reverse, List.filterMap_map]
    congr 1; funext n; simp [Function.comp, hintNE, (hl n).1]
  · rw [C19_details, C19_details]
    simp only [detailsInner, chain_forget, ← List.map_reverse, List.filterMap_map]
    congr 1; funext n; simp [Function.comp, detailNE, (hl n).2.1]
  · simp only [getAllIssueLinks, chain_forget, List.filterMap_map]
    congr 1; funext n; simp [Function.comp, (hl n).2.2.1]
  · simp only [getTelemetryKeys, chain_forget, List.flatMap_map]
    congr 1; funext n; simp [(hl n).2.2.2.1]
  · simp only [getDomain, chain_forget, List.findSome?_map]
    congr 2; funext n; simp [Function.comp, (hl n).2.2.2.2.1]
  · simp only [getContextTags, chain_forget, List.filterMap_map]
    congr 1; funext n; simp [Function.comp, (hl n).2.2.2.2.2.1]
  · intro dflt
    simp only [getHTTPCode, chain_forget, List.findSome?_map]
    congr 2; funext n; simp [Function.comp, (hl n).2.2.2.2.2.2.1]
  · simp only [getGrpcCode, chain_forget, List.findSome?_map]
    congr 2; funext n; simp [Function.comp, (hl n).2.2.2.2.2.2.2.1]
  · simp only [hasAssertionFailure, chain_forget, List.any_map]
    congr 1; funext n; simp [Function.comp, (hl n).2.2.2.2.2.2.2.2.1]
  · simp only [hasIssueLink, chain_forget, List.any_map]
    congr 1; funext n; simp [Function.comp, (hl n).2.2.2.2.2.2.2.2.2.1]
  · simp only [isTimeout, chain_forget, List.any_map]
    congr 1; funext n; simp [Function.comp, (hl n).2.2.2.2.2.2.2.2.2.2.1]

/-! ### Is / IsAny -/

theorem typeMark_forget (P : Proc) (d : Err) (n : Err) : typeMark P (forget d n) = typeMark P n := by
  cases n with
  | leaf id k => rfl
  | barrier id m h => rfl
  | wrap id k c => cases k <;> rfl
  | second id c s => rfl
  | multi id k cs => cases k <;> rfl

theorem generic_mark_forget (P : Proc) (d n : Err) :
    (⟨text (forget d n), (chain (forget d n)).map (typeMark P)⟩ : Mark) = ⟨text n, (chain n).map (typeMark P)⟩ := by
  rw [text_forget, chain_forget]
  simp [List.map_map, Function.comp_def, typeMark_forget]

theorem getMark_forget (P : Proc) (d : Err) (n : Err) : getMark P (forget d n) = getMark P n := by
  cases n with
  | wrap id k c =>
    cases k with
    | withMark m t => rfl
    | _ => exact generic_mark_forget P d (.wrap id _ c)
  | leaf id k => exact generic_mark_forget P d (.leaf id k)
  | barrier id m h => exact generic_mark_forget P d (.barrier id m h)
  | second id c s => exact generic_mark_forget P d (.second id c s)
  | multi id k cs => exact generic_mark_forget P d (.multi id k cs)

theorem goEq_forget (d n r : Err) : goEq (forget d n) r = goEq n r := by
  cases n with
  | leaf id k => rfl
  | barrier id m h => cases r with
    | leaf id2 k2 => cases k2 <;> rfl
    | _ => rfl
  | wrap id k c => cases r with
    | leaf id2 k2 => cases k2 <;> rfl
    | _ => rfl
  | second id c s => cases r with
    | leaf id2 k2 => cases k2 <;> rfl
    | _ => rfl
  | multi id k cs => cases r with
    | leaf id2 k2 => cases k2 <;> rfl
    | _ => rfl

theorem isMethod_forget (d n r : Err) : isMethod (forget d n) r = isMethod n r := by
  cases n <;> rfl

theorem selfMatch_forget (d n r : Err) : selfMatch (forget d n) r = selfMatch n r := by
  simp [selfMatch, goEq_forget, isMethod_forget]

mutual
theorem reach_forget (d : Err) : (e : Err) → reach (forget d e) = (reach e).map (forget d)
  | .leaf id k => rfl
  | .barrier id m h => by simp [forget, reach]
  | .wrap id k c => by simp [forget, reach, reach_forget d c]
  | .second id c s => by simp [forget, reach, reach_forget d c]
  | .multi id k cs => by simp [forget, reach, reachL_forget d cs]
theorem reachL_forget (d : Err) : (cs : List Err) → reachL (forgetL d cs) = (reachL cs).map (forget d)
  | [] => rfl
  | e :: r => by simp [forgetL, reachL, reach_forget d e, reachL_forget d r]
end

/-- Is cannot see hidden errors: whatever sits behind a barrier or in a secondary
    error, at any depth, the answer is the same. -/
theorem C07_is (P : Proc) (d e r : Err) : isB P (forget d e) r = isB P e r := by
  rw [isB_char, isB_char, reach_forget, List.any_map]
  congr 1; funext n
  simp [Function.comp, layerMatch, selfMatch_forget, getMark_forget]

/-- IsAny likewise. -/
theorem C07_isAny (P : Proc) (d e : Err) (refs : List (Option Err)) :
    isAnyB P (forget d e) refs = isAnyB P e refs := by
  have h : ∀ x, isAnyB P x refs = (dropNone refs).any (fun r => isB P x r) := by
    intro x
    show (isAnyPhase1 P (dropNone refs) x || isAnyPhase2 P ((dropNone refs).map (getMark P)) (chain x)) = _
    rw [isAny_char]
    have : (fun n => layerMatchAny P (dropNone refs) n) = (fun n => (dropNone refs).any (fun r => layerMatch P r n)) := rfl
    show (reach x).any (fun n => layerMatchAny P (dropNone refs) n) = _
    rw [this, any_any_swap]
    congr 1; funext r; rw [isB_char]
  rw [h, h]
  congr 1; funext r; exact C07_is P d e r

/-- In particular a sentinel hidden behind a barrier (or in a secondary error) is not
    matched, while the same sentinel as a cause is. -/
theorem C07_is_example :
    let sentinel : Err := .leaf [1] (.errorString (b!"context canceled"))
    let hiddenBehind : Err := .barrier [100] ⟨b!"context canceled", none⟩ sentinel
    let asSecondary : Err := .second [101] (.leaf [102] (.errorString (b!"x"))) sentinel
    let asCause : Err := .wrap [103] (.withHint (b!"h")) sentinel
    isB Full hiddenBehind sentinel = false ∧ isB Full asSecondary sentinel = false ∧ isB Full asCause sentinel = true := by
  decide

/-! ### the constructors -/

/-- Handled / Opaque / HandledWithMessage(f): a barrier; its text is its own message. -/
theorem C07_handled (n : Nat) (rs : RStr) (e : Err) :
    (cHandled n rs (some e)).map unwrapOnce = some none ∧ (cHandled n rs (some e)).map text = some (stripMarkers rs) := by
  simp [cHandled, unwrapOnce, text]

/-- HandleAsAssertionFailure and NewAssertionErrorWithWrappedErrf put the original error
    behind a barrier: the root cause of the result is that barrier. -/
theorem C07_handleAsAssertion_root (n : Nat) (rs : RStr) (st : Stack) (e : Err) :
    (cHandleAsAssertionFailure n rs st (some e)).map unwrapAll = some (.barrier (lid n 0) ⟨rs, none⟩ e) := by
  simp [cHandleAsAssertionFailure, cAnnot, cWithStack, cHandled, unwrapAll]

theorem C07_newAssertionWrapped_root (n : Nat) (a : RStr) (b : Bool) (rs : RStr) (st : Stack) (e : Err) :
    (cNewAssertionErrorWithWrappedErrf n a b rs st (some e)).map unwrapAll = some (.barrier (lid n 0) ⟨a, none⟩ e) := by
  cases b <;> simp [cNewAssertionErrorWithWrappedErrf, cAnnot, cWrap, cHandled, unwrapAll]

/-- WithSecondaryError: the secondary error is not on the cause chain. -/
theorem C07_secondary_chain (n : Nat) (e s : Err) :
    (cWithSecondary n (some e) (some s)).map chain = some (.second (lid n 0) e s :: chain e) := by
  simp [cWithSecondary, chain]

/-- Error arguments captured by Newf/Wrapf are attached as secondary errors only. -/
theorem C07_newf_args_hidden (n : Nat) (rs : RStr) (st : Stack) (errArgs : List Err) :
    (cNewfE n rs st errArgs).map unwrapAll = some (.leaf (lid n 1) (.leafError rs)) := by
  have : ∀ (l : List Err) (j : Nat) (x : Err), unwrapAll (addSecondaries n j x l) = unwrapAll x := by
    intro l
    induction l with
    | nil => intro j x; rfl
    | cons a r ih => intro j x; simp [addSecondaries, ih, unwrapAll]
  simp [cNewfE, unwrapAll, this]

/-- Mark stores nothing of its reference but the mark: two references with the same mark
    give the same result, whatever else they contain (sentinels, hints, codes, domains…). -/
theorem C07_mark_reference (P : Proc) (n : Nat) (e : Option Err) (r r' : Err) (h : getMark P r = getMark P r') :
    cMark P n e (some r) = cMark P n e (some r') := by
  cases e <;> simp [cMark, h]


/-! ## The source's own Cause / Unwrap methods (regenerated on every run)

`Generated/UnwrapFacts.lean`: every `Cause()` / `Unwrap()` method of a struct type of /repo that
has an error-typed field, with the receiver field it returns; `hiddenFields` are the fields a
package ships as an `EncodeError` payload instead of as a cause (the barrier's masked error, the
secondary error). -/

/-- no Cause/Unwrap method of the current source returns (or, when its body is not a plain
    `return recv.field`, mentions) a hidden field -/
theorem C07_hidden_fields_never_unwrapped : Unwrap.methods.all (fun m => !m.hidden) = true := by decide

/-- the table is not vacuous: both hidden fields are recognised, and the wrapper types are listed -/
theorem C07_hidden_fields_found : 2 ≤ Unwrap.hiddenFields.length ∧ 20 ≤ Unwrap.methods.length := by decide

end ErrModel
