import ErrModel.Proofs.Is
import ErrModel.Ctor
/-
  C08 — Is/IsAny are total, reflexive, monotone and decide mark equivalence.

  Stated for the repaired tree (fix: equalMarks length check, /repo d10628e).
  `is` is the transliteration of markers.Is with `none` as the panic outcome;
  `reach e` is the set of visible layers (single-cause chain, and recursively the
  branches of multi-cause layers); `layerMatch P r n` says that layer `n` is
  identical to `r`, or says so through its own Is method, or has the same
  message text and the same full sequence of (type, extension) marks.
-/
namespace ErrModel

/-- Totality: the transliteration has no reachable panic outcome, for any pair. -/
theorem C08_total (P : Proc) (e r : Err) : (is P e r).isSome = true := rfl

/-- `Is` decides exactly the documented equivalence over the visible layers. -/
theorem C08_char (P : Proc) (e r : Err) :
    isB P e r = (reach e).any (fun n => selfMatch n r || markEquiv (getMark P n) (getMark P r)) :=
  isB_char P r e

/-- `equalMarks` = same message and the same full sequence of type marks:
    a difference in message, in any type of the chain, in chain length or in the
    extension (domain) makes two marks different. -/
theorem C08_marks (m1 m2 : Mark) : equalMarks m1 m2 = (m1.msg = m2.msg && m1.tys = m2.tys) :=
  equalMarks_eq_markEquiv m1 m2

/-- Reflexivity. -/
theorem C08_refl (P : Proc) (e : Err) : is P e e = some true := by
  obtain ⟨t, ht⟩ := reach_head e
  have := isB_char P e e
  simp only [is]
  rw [this, ht]
  simp [layerMatch_self]

/-- Monotonicity: every single-cause wrapper keeps what its cause matched. -/
theorem C08_mono (P : Proc) (id : Ident) (k : WrapKind) (e r : Err) (h : is P e r = some true) :
    is P (.wrap id k e) r = some true := by
  simp only [is, Option.some.injEq] at h ⊢
  rw [isB_char] at h ⊢
  simp only [reach, List.any_cons, h, Bool.or_true]

theorem C08_mono_secondary (P : Proc) (id : Ident) (e s r : Err) (h : is P e r = some true) :
    is P (.second id e s) r = some true := by
  simp only [is, Option.some.injEq] at h ⊢
  rw [isB_char] at h ⊢
  simp only [reach, List.any_cons, h, Bool.or_true]

/-- IsAny(e, r1..rn) is the disjunction of Is(e, ri) (nil references are skipped). -/
theorem C08_any (P : Proc) (e : Err) (refs : List (Option Err)) :
    isAnyB P e refs = (dropNone refs).any (fun r => isB P e r) := by
  show (isAnyPhase1 P (dropNone refs) e || isAnyPhase2 P ((dropNone refs).map (getMark P)) (chain e)) = _
  rw [isAny_char]
  have : (fun n => layerMatchAny P (dropNone refs) n) = (fun n => (dropNone refs).any (fun r => layerMatch P r n)) := rfl
  show (reach e).any (fun n => layerMatchAny P (dropNone refs) n) = _
  rw [this, any_any_swap]
  congr 1
  funext r
  rw [isB_char]

/-- Is(nil, r) is r == nil; Is(e, nil) is false for non-nil e. -/
theorem C08_nil (P : Proc) (r : Option Err) : isOpt P none r = some (r.isNone) := by
  cases r <;> rfl

theorem C08_nil_ref (P : Proc) (e : Err) : isOpt P (some e) none = some false := rfl

/-- Mark(e, r) matches what e matched, plus every reference equivalent to r
    (and itself, by identity). -/
theorem C08_mark (P : Proc) (id : Ident) (m : Str) (t : List TMark) (e x : Err) :
    isB P (.wrap id (.withMark m t) e) x =
      (selfMatch (.wrap id (.withMark m t) e) x || markEquiv ⟨m, t⟩ (getMark P x) || isB P e x) := by
  rw [isB_char, isB_char]
  simp only [reach, List.any_cons, layerMatch, getMark]

theorem C08_mark_ctor (P : Proc) (n : Nat) (e r x : Err) :
    (cMark P n (some e) (some r)).bind (fun o => o.map (fun w => isB P w x)) =
      some (some (selfMatch (.wrap (lid n 0) (.withMark (getMark P r).msg (getMark P r).tys) e) x
        || markEquiv (getMark P r) (getMark P x) || isB P e x)) := by
  simp [cMark, C08_mark]

/-- Marks accumulate: a second `Mark` on top keeps the first one.  `Mark(Mark(e, r1), r2)` matches
    every reference equivalent to `r1` and every reference equivalent to `r2` (in particular `r1`
    and `r2` themselves) and everything `e` matched. -/
theorem C08_mark_accumulates (P : Proc) (id1 id2 : Ident) (m1 m2 : Str) (t1 t2 : List TMark) (e x : Err) :
    isB P (.wrap id2 (.withMark m2 t2) (.wrap id1 (.withMark m1 t1) e)) x =
      (selfMatch (.wrap id2 (.withMark m2 t2) (.wrap id1 (.withMark m1 t1) e)) x ||
        markEquiv ⟨m2, t2⟩ (getMark P x) ||
        (selfMatch (.wrap id1 (.withMark m1 t1) e) x || markEquiv ⟨m1, t1⟩ (getMark P x) || isB P e x)) := by
  rw [C08_mark, C08_mark]

theorem C08_mark_keeps_first (P : Proc) (id1 id2 : Ident) (m1 m2 : Str) (t1 t2 : List TMark) (e x : Err)
    (h : markEquiv ⟨m1, t1⟩ (getMark P x) = true) :
    isB P (.wrap id2 (.withMark m2 t2) (.wrap id1 (.withMark m1 t1) e)) x = true := by
  rw [C08_mark_accumulates]; simp [h]

/-- Non-vacuity / regression of the repaired defect: the two witnesses on which the
    pinned tree panicked resp. reported a false match are now decided as different. -/
def uW : UserTy := ⟨b!"x/*x.W", b!"*x.W", 1, [], 1⟩
def cexWrapped : Err := .wrap [1] (.user uW (b!"m")) (.leaf [2] (.errorString (b!"z")))
def cexLeaf : Err := .leaf [3] (.user uW (b!"m"))

theorem C08_prefix_chain_regression :
    is Full cexWrapped cexLeaf = some false ∧ is Full cexLeaf cexWrapped = some false := by decide

end ErrModel
