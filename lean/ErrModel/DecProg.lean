/-
  The registered decoders as tiny straight-line programs (regenerated from /repo's source by
  go/extract decoders on every run, see Generated/DecoderFacts.lean) and a verified checker:
  a program accepted by `safe` never panics, whatever the payload and whatever the lengths of
  the detail / payload-field slices.
-/
namespace ErrModel.DecProg

inductive Op
  /-- `payload.(*T)`; `checked`: comma-ok form whose result is tested by a give-up guard, or a type switch -/
  | assert (checked : Bool)
  /-- `if … len(s) < n … { return nil }` -/
  | require (s n : Nat)
  /-- `s[i]`, evaluated inside `if len(s) > under-1 { … }` (`under = 0`: no such test) -/
  | index (s i under : Nat)
  /-- a construct the extractor does not recognise -/
  | unknown
  deriving DecidableEq, Repr, Inhabited

/-- what the decoder is called with: does the payload have the asserted type, and how long is each slice -/
structure Env where
  payloadOk : Bool
  len : Nat → Nat

inductive Outcome
  | panic | giveUp | done
  deriving DecidableEq, Repr

def run (env : Env) : List Op → Outcome
  | [] => .done
  | .assert checked :: r => if env.payloadOk then run env r else if checked then .giveUp else .panic
  | .require s n :: r => if env.len s < n then .giveUp else run env r
  | .index s i under :: r =>
    if env.len s < under then run env r          -- the enclosing `if len(s) > …` is not taken
    else if i < env.len s then run env r else .panic
  | .unknown :: _ => .panic                      -- not recognised: assume the worst

/-- the greatest lower bound on `len s` established so far -/
def lb : List (Nat × Nat) → Nat → Nat
  | [], _ => 0
  | (s', n) :: r, s => if s' = s then max n (lb r s) else lb r s

/-- the checker: every assertion is checked, every constant index is below an established bound -/
def safe (b : List (Nat × Nat)) : List Op → Bool
  | [] => true
  | .assert c :: r => c && safe b r
  | .require s n :: r => safe ((s, n) :: b) r
  | .index s i under :: r => decide (i < max (lb b s) under) && safe b r
  | .unknown :: _ => false

def Inv (b : List (Nat × Nat)) (env : Env) : Prop := ∀ p ∈ b, p.2 ≤ env.len p.1

theorem lb_le (b : List (Nat × Nat)) (env : Env) (h : Inv b env) (s : Nat) : lb b s ≤ env.len s := by
  induction b with
  | nil => simp [lb]
  | cons p r ih =>
    obtain ⟨s', n⟩ := p
    have hr : Inv r env := fun q hq => h q (List.mem_cons_of_mem _ hq)
    have hp : n ≤ env.len s' := h (s', n) (List.mem_cons_self ..)
    simp only [lb]
    split
    · next he => subst he; exact Nat.max_le.mpr ⟨hp, ih hr⟩
    · exact ih hr

/-- soundness of the checker -/
theorem safe_sound (env : Env) : ∀ (ops : List Op) (b : List (Nat × Nat)), Inv b env → safe b ops = true → run env ops ≠ .panic
  | [], _, _, _ => by simp [run]
  | .assert c :: r, b, hi, hs => by
    simp [safe] at hs
    simp only [run]
    split
    · exact safe_sound env r b hi hs.2
    · simp [hs.1]
  | .require s n :: r, b, hi, hs => by
    simp [safe] at hs
    simp only [run]
    split
    · simp
    · next hlt =>
      refine safe_sound env r ((s, n) :: b) ?_ hs
      intro p hp
      rcases List.mem_cons.mp hp with rfl | hp
      · exact Nat.le_of_not_lt hlt
      · exact hi p hp
  | .index s i under :: r, b, hi, hs => by
    simp [safe] at hs
    simp only [run]
    split
    · exact safe_sound env r b hi hs.2
    · next hnu =>
      have h1 := lb_le b env hi s
      have hm : max (lb b s) under ≤ env.len s := Nat.max_le.mpr ⟨h1, Nat.le_of_not_lt hnu⟩
      have : i < env.len s := Nat.lt_of_lt_of_le hs.1 hm
      simp [this]
      exact safe_sound env r b hi hs.2
  | .unknown :: _, _, _, hs => by simp [safe] at hs

structure Decoder where
  pkg : String
  fn : String
  key : String
  kind : String
  ops : List Op
  deriving Repr

end ErrModel.DecProg
