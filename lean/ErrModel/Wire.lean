import ErrModel.Basic.Bytes
/-
  The wire representation (`errorspb.EncodedError`), as a Lean value.

  `Enc.leaf`  = EncodedErrorLeaf  {message, details, multierror_causes}
  `Enc.wrap`  = EncodedWrapper    {cause, message, details, message_type}
  `Det`       = EncodedErrorDetails {original_type_name, error_type_mark{family,ext},
                                     reportable_payload, full_details(Any)}
  The `Any` payload is `Pay`; the one recursive payload type (`EncodedError`
  inside barrier / secondary layers) is kept in the `hid` field of the node so
  that `Enc` nests only through `List` (hid = [] : payload is `d.pay`;
  hid = e :: _ : the payload is the EncodedError `e`).
-/
namespace ErrModel

/-- `errorspb.ErrorTypeMark`. -/
structure TMark where
  fam : Str
  ext : Str
  deriving DecidableEq, Repr, Inhabited

/-- The decoded contents of `details.full_details` (a protobuf `Any`). -/
inductive Pay
  | none
  | str (s : Str)                                   -- errorspb.StringPayload
  | strs (l : List Str)                             -- errorspb.StringsPayload
  | errno (n : Nat) (arch : Str) (perm exist notExist timeout temp : Bool) -- ErrnoPayload
  | mark (msg : Str) (tys : List TMark)             -- errorspb.MarkPayload
  | tags (l : List (Str × Str))                     -- errorspb.TagsPayload
  | http (n : Nat)                                  -- exthttp.EncodedHTTPCode
  | grpc (n : Nat)                                  -- extgrpc.EncodedGrpcCode
  | status (code : Nat) (msg : Str) (nd : Nat)      -- gogo rpc.Status (nd = #details)
  | testErr                                         -- errorspb.TestError: a proto message that is an error
  | raw (url : Str) (val : Str)                     -- an Any that cannot be unmarshalled here
  deriving DecidableEq, Repr, Inhabited

structure Det where
  origType : Str
  mark : TMark
  rep : List Str
  pay : Pay
  deriving DecidableEq, Repr, Inhabited

inductive Enc
  | leaf (msg : Str) (d : Det) (hid : List Enc) (causes : List Enc)
  | wrap (msg : Str) (d : Det) (mt : Nat) (hid : List Enc) (cause : Enc)
  deriving Repr, Inhabited

/-- message_type values. -/
def mtPrefix : Nat := 0
def mtFull : Nat := 1

end ErrModel
