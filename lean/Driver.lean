import ErrModel.Obs
open ErrModel

partial def loop (h : IO.FS.Stream) (out : IO.FS.Stream) : IO Unit := do
  let line ← h.getLine
  if line.isEmpty then return ()
  let l := line.trimAsciiEnd.toString
  if l.isEmpty then loop h out else
  out.putStrLn (runLine l)
  loop h out

def main : IO Unit := do
  let out ← IO.getStdout
  loop (← IO.getStdin) out
  out.flush
