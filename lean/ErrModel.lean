import ErrModel.Obs
